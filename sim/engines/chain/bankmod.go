package chain

// bankModulePhase (C14): a module-level workload appended to every C14 run.
//
// The chain-level workload can only reach the bank through signed txs, and
// bank.MsgMultiSend is not amino-registered, so BankKeeper.InputOutputCoins is
// unreachable there. This phase wires the REAL auth.AccountKeeper,
// bank.BankKeeper and params.ParamsKeeper exactly like gnoland.NewAppWithOptions
// does (one "main" store key for all three, gas denom "ugnot" as the only
// account-tier denom, GnoAccount prototypes) over the real rootmulti store
// (main = store/bptree, base = dbadapter) on a simdb disk, and drives them with
// a seed-drawn history of transactions shaped like BaseApp.runTx:
//
//	ValidateBasic of every message  -> refusal: nothing runs
//	tx cache = deliver.MultiCacheWrap()
//	ante: auth.DeductFees + sequence bump (abort: cache dropped)
//	Checkpoint()
//	messages in order through bank.NewHandler(k).Process / keeper calls the VM makes
//	success: MultiWrite()   failure or panic: WriteCheckpoint() (ante writes only)
//
// and, between txs, Commit (header into base, deliver.MultiWrite, cms.Commit),
// close+reopen, and a crash inside Commit followed by a reopen at whatever
// version is durable, with the model rolled back to that version.
//
// Oracles (all property C14): the repository's own invariant functions, an
// independent reference model of balances/supply, and a byte-level "a failed tx
// leaves nothing behind" comparison of the whole main store.

import (
	"encoding/binary"
	"fmt"
	"io"
	"math"
	"sort"
	"strings"
	"time"

	"github.com/gnolang/gno/gno.land/pkg/gnoland"
	"github.com/gnolang/gno/tm2/pkg/amino"
	bft "github.com/gnolang/gno/tm2/pkg/bft/types"
	"github.com/gnolang/gno/tm2/pkg/crypto"
	"github.com/gnolang/gno/tm2/pkg/log"
	"github.com/gnolang/gno/tm2/pkg/sdk"
	"github.com/gnolang/gno/tm2/pkg/sdk/auth"
	"github.com/gnolang/gno/tm2/pkg/sdk/bank"
	"github.com/gnolang/gno/tm2/pkg/sdk/params"
	"github.com/gnolang/gno/tm2/pkg/std"
	"github.com/gnolang/gno/tm2/pkg/store"
	storebptree "github.com/gnolang/gno/tm2/pkg/store/bptree"
	"github.com/gnolang/gno/tm2/pkg/store/dbadapter"
	stypes "github.com/gnolang/gno/tm2/pkg/store/types"

	"verif/sim/kernel"
	"verif/sim/simdb"
)

const bmChainID = "verif-bankmod"

const (
	bmTok   = "/gno.land/r/x:tok" // realm-style denom (split tier)
	bmFoo   = "foo"               // plain non-gas denom (split tier)
	bmUgnot = "ugnot"             // gas denom: lives inside the account object
)

// ascending byte order, which is the order std.Coins requires
var bmDenoms = []string{bmTok, bmFoo, bmUgnot}

// ---- reference model ---------------------------------------------------------------

type bmModel struct {
	bal        map[string]map[string]int64 // actor -> denom -> amount (only > 0 entries)
	acct       map[string]bool             // actor has an account object
	supply     map[string]int64            // denom -> recorded supply (only > 0 entries)
	restricted map[string]bool
}

func newBmModel() *bmModel {
	return &bmModel{bal: map[string]map[string]int64{}, acct: map[string]bool{}, supply: map[string]int64{}, restricted: map[string]bool{}}
}

func (m *bmModel) clone() *bmModel {
	n := newBmModel()
	for a, ds := range m.bal {
		n.bal[a] = map[string]int64{}
		for d, v := range ds {
			n.bal[a][d] = v
		}
	}
	for a, v := range m.acct {
		n.acct[a] = v
	}
	for d, v := range m.supply {
		n.supply[d] = v
	}
	for d, v := range m.restricted {
		n.restricted[d] = v
	}
	return n
}

func (m *bmModel) get(a, d string) int64 { return m.bal[a][d] }

func (m *bmModel) set(a, d string, v int64) {
	if v == 0 {
		delete(m.bal[a], d)
		if len(m.bal[a]) == 0 {
			delete(m.bal, a)
		}
		return
	}
	if m.bal[a] == nil {
		m.bal[a] = map[string]int64{}
	}
	m.bal[a][d] = v
}

func (m *bmModel) addSupply(d string, delta int64) {
	v := m.supply[d] + delta
	if v == 0 {
		delete(m.supply, d)
	} else {
		m.supply[d] = v
	}
}

func (m *bmModel) sums() map[string]int64 {
	out := map[string]int64{}
	for _, ds := range m.bal {
		for d, v := range ds {
			out[d] += v
		}
	}
	return out
}

// the model's own notion of a well-formed coin set (independent of std.Coins.IsValid):
// denoms valid, strictly ascending, every amount positive. The empty set is well formed.
func bmValidDenom(d string) bool {
	if len(d) < 3 || len(d) > 274 {
		return false
	}
	for i := 0; i < len(d); i++ {
		ch := d[i]
		lower := ch >= 'a' && ch <= 'z'
		if i == 0 {
			if !lower && ch != '/' {
				return false
			}
			continue
		}
		if !lower && !(ch >= '0' && ch <= '9') && !strings.ContainsRune("_.:/-", rune(ch)) {
			return false
		}
	}
	return true
}

func bmValidCoins(cs std.Coins) bool {
	for i, c := range cs {
		if !bmValidDenom(c.Denom) || c.Amount <= 0 {
			return false
		}
		if i > 0 && c.Denom <= cs[i-1].Denom {
			return false
		}
	}
	return true
}

func bmCoins(amts map[string]int64) std.Coins {
	ds := make([]string, 0, len(amts))
	for d := range amts {
		ds = append(ds, d)
	}
	sort.Strings(ds)
	out := std.Coins{}
	for _, d := range ds {
		out = append(out, std.Coin{Denom: d, Amount: amts[d]})
	}
	return out
}

func bmCoinsStr(cs std.Coins) string {
	if len(cs) == 0 {
		return "{}"
	}
	var parts []string
	for _, c := range cs {
		parts = append(parts, fmt.Sprintf("%d%s", c.Amount, c.Denom))
	}
	return strings.Join(parts, ",")
}

type bmVest struct {
	delayed    bool
	orig       map[string]int64
	start, end int64
}

// locked amount of denom d at block time bt (std/vesting_account.go: cliff or linear, floor division)
func (v *bmVest) locked(d string, bt int64) int64 {
	o := v.orig[d]
	if o == 0 || bt >= v.end {
		return 0
	}
	if v.delayed || bt <= v.start {
		return o
	}
	vested := o * (bt - v.start) / (v.end - v.start) // amounts and spans are small: no overflow
	return o - vested
}

// ---- operations ------------------------------------------------------------------------

type bmIO struct {
	who   string
	coins std.Coins
}

type bmOp struct {
	kind     string // send multisend | k-send k-sendu k-subadd k-mint k-burn k-reseed | param
	from, to string
	amt      std.Coins
	ins      []bmIO
	outs     []bmIO
	list     []string
}

func (o *bmOp) handlerMsg() bool { return o.kind == "send" || o.kind == "multisend" }

func (o *bmOp) String() string {
	switch o.kind {
	case "multisend":
		var in, out []string
		for _, i := range o.ins {
			in = append(in, i.who+":"+bmCoinsStr(i.coins))
		}
		for _, i := range o.outs {
			out = append(out, i.who+":"+bmCoinsStr(i.coins))
		}
		return "multisend([" + strings.Join(in, " ") + "]->[" + strings.Join(out, " ") + "])"
	case "param":
		return "restrict(" + strings.Join(o.list, ",") + ")"
	case "k-mint", "k-reseed":
		return o.kind + "(" + o.to + " " + bmCoinsStr(o.amt) + ")"
	case "k-burn":
		return o.kind + "(" + o.from + " " + bmCoinsStr(o.amt) + ")"
	}
	return o.kind + "(" + o.from + "->" + o.to + " " + bmCoinsStr(o.amt) + ")"
}

type bmTx struct {
	payer string
	fee   int64
	ops   []*bmOp
}

func (t *bmTx) String() string {
	var parts []string
	for _, o := range t.ops {
		parts = append(parts, o.String())
	}
	s := strings.Join(parts, "; ")
	if t.fee > 0 {
		s = fmt.Sprintf("fee %d by %s; %s", t.fee, t.payer, s)
	}
	return s
}

// ---- the module world ------------------------------------------------------------------

type bankMod struct {
	c *kernel.Choices
	r *kernel.Result

	mach  *simdb.Machine
	disk  *simdb.Disk
	fast  bool
	prune stypes.PruneStrategy

	cms     stypes.CommitMultiStore
	mainKey store.StoreKey
	baseKey store.StoreKey
	acck    auth.AccountKeeper
	bankk   bank.BankKeeper
	prmk    params.ParamsKeeper
	deliver stypes.MultiStore // BaseApp.deliverState.ms
	version int64             // last committed version
	now     time.Time         // block time of the block being built

	names  []string
	addrs  map[string]crypto.Address
	byAddr map[crypto.Address]string
	vest   map[string]*bmVest
	white  map[string]bool

	model *bmModel
	snaps map[int64]*bmModel // model at every committed version

	lastCommitOps uint64
	txn           int
	stop          bool
}

var bmFunded = []string{"a0", "a1", "a2", "a3", "wl", "vd", "vc"}
var bmFresh = []string{"n0", "n1", "n2"}

func (b *bankMod) fail(oracle, format string, args ...any) {
	b.r.Fail("C14", oracle, "bank module phase: "+format, args...)
	b.stop = true
}

func (b *bankMod) ctx(ms stypes.MultiStore) sdk.Context {
	return sdk.NewContext(sdk.RunTxModeDeliver, ms, &bft.Header{ChainID: bmChainID, Height: b.version + 1, Time: b.now}, log.NewNoopLogger())
}

// open mounts a fresh rootmulti and fresh keepers over the disk (a process start).
func (b *bankMod) open() error {
	db := b.disk.Open()
	b.mainKey = store.NewStoreKey("main")
	b.baseKey = store.NewStoreKey("base")
	cms := store.NewCommitMultiStore(db)
	so := cms.GetStoreOptions()
	so.PruningOptions = b.prune.Options()
	cms.SetStoreOptions(so)
	ctor := storebptree.StoreConstructor
	if b.fast {
		ctor = storebptree.FastStoreConstructor // what gnoland.NewAppWithOptions mounts
	}
	cms.MountStoreWithDB(b.mainKey, ctor, db)
	cms.MountStoreWithDB(b.baseKey, dbadapter.StoreConstructor, db)
	if err := cms.LoadLatestVersion(); err != nil {
		return err
	}
	b.cms = cms
	b.prmk = params.NewParamsKeeper(b.mainKey)
	b.acck = auth.NewAccountKeeper(b.mainKey, b.prmk.ForModule(auth.ModuleName), gnoland.ProtoGnoAccount, gnoland.ProtoGnoSessionAccount)
	b.bankk = bank.NewBankKeeper(b.acck, b.prmk.ForModule(bank.ModuleName), b.mainKey, []string{bmUgnot})
	b.prmk.Register(auth.ModuleName, b.acck)
	b.prmk.Register(bank.ModuleName, b.bankk)
	b.deliver = cms.MultiCacheWrap()
	return nil
}

func (b *bankMod) close() {
	if cl, ok := b.cms.(io.Closer); ok && b.cms != nil {
		cl.Close()
	}
	b.cms = nil
}

// ---- panic guard -----------------------------------------------------------------------

// bmGuard runs f like BaseApp.runTx's recover does: a panic is a failure of the tx.
// Simulator panics (crash sentinel, harness errors, tape overrun) are passed through.
func bmGuard(f func() error) (err error) {
	defer func() {
		if r := recover(); r != nil {
			switch r.(type) {
			case simdb.CrashSentinel, kernel.HarnessError, kernel.ErrTapeOverrun:
				panic(r)
			}
			err = fmt.Errorf("panic: %v", r)
		}
	}()
	return f()
}

func bmErrType(err error) string {
	if err == nil {
		return ""
	}
	if strings.HasPrefix(err.Error(), "panic: ") {
		return clip(err.Error(), 120)
	}
	if re, ok := err.(bmResultErr); ok {
		return re.typ
	}
	return fmt.Sprintf("%T", err)
}

type bmResultErr struct {
	typ string
	log string
}

func (e bmResultErr) Error() string { return e.typ + ": " + clip(e.log, 300) }

func resErr(res sdk.Result) error {
	if res.IsOK() {
		return nil
	}
	return bmResultErr{typ: fmt.Sprintf("%T", res.Error), log: res.Log}
}

// ---- genesis -----------------------------------------------------------------------------

func (b *bankMod) genesis() {
	c := b.c
	ctx := b.ctx(b.deliver)
	b.acck.InitGenesis(ctx, auth.DefaultGenesisState())
	b.bankk.InitGenesis(ctx, bank.DefaultGenesisState())
	t0 := b.now.Unix()
	for _, nm := range bmFunded {
		addr := b.addrs[nm]
		amts := map[string]int64{}
		switch nm {
		case "vd", "vc":
			amts[bmUgnot] = int64(100 + c.Intn(300))
			amts[bmFoo] = int64(50 + c.Intn(200))
			if c.Bool() {
				amts[bmTok] = int64(1 + c.Intn(100))
			}
		default:
			if c.Intn(5) != 1 {
				amts[bmUgnot] = int64(50 + c.Intn(400))
			}
			if c.Intn(3) != 1 {
				amts[bmFoo] = int64(1 + c.Intn(300))
			}
			if c.Bool() {
				amts[bmTok] = int64(1 + c.Intn(300))
			}
		}
		coins := bmCoins(amts)
		// gnoland.InitChainerConfig.applyBalance
		if nm == "vd" || nm == "vc" {
			v := &bmVest{delayed: nm == "vd", orig: map[string]int64{}}
			v.orig[bmUgnot] = int64(1 + c.Intn(int(amts[bmUgnot])))
			if c.Bool() {
				v.orig[bmFoo] = int64(1 + c.Intn(int(amts[bmFoo]))) // a schedule may lock a split-tier denom
			}
			v.start = t0 + int64(c.Intn(60))
			v.end = v.start + int64(1+c.Intn(240))
			sched := std.VestingSchedule{OriginalVesting: bmCoins(v.orig), StartTime: v.start, EndTime: v.end}
			base := std.BaseAccount{Address: addr, Coins: coins, AccountNumber: b.acck.GetNextAccountNumber(ctx)}
			var acc std.Account
			var err error
			if v.delayed {
				sched.Type = std.VestingDelayed
				acc, err = std.NewDelayedVestingAccount(&base, sched)
			} else {
				acc, err = std.NewContinuousVestingAccount(&base, sched)
			}
			if err != nil {
				kernel.Harnessf("bankmod genesis: vesting account %s: %v", nm, err)
			}
			b.acck.SetAccount(ctx, acc)
			b.vest[nm] = v
			c.Event("bm genesis %s vesting delayed=%v orig=%s start=+%d end=+%d", nm, v.delayed, bmCoinsStr(sched.OriginalVesting), v.start-t0, v.end-t0)
		} else {
			b.acck.SetAccount(ctx, b.acck.NewAccountWithAddress(ctx, addr))
		}
		if err := b.bankk.SetCoins(ctx, addr, coins); err != nil {
			kernel.Harnessf("bankmod genesis: SetCoins %s %s: %v", nm, bmCoinsStr(coins), err)
		}
		if nm == "wl" {
			acc := b.acck.GetAccount(ctx, addr)
			acc.(*gnoland.GnoAccount).SetTokenLockWhitelisted(true)
			b.acck.SetAccount(ctx, acc)
			b.white[nm] = true
		}
		b.model.acct[nm] = true
		for d, v := range amts {
			b.model.set(nm, d, v)
		}
		c.Event("bm genesis %s %s", nm, bmCoinsStr(coins))
	}
	b.bankk.RecomputeSupply(ctx) // InitChainerConfig.seedSupply
	for d, v := range b.model.sums() {
		b.model.supply[d] = v
	}
}

// ---- commit / reopen / crash ----------------------------------------------------------

// commitBlock is BaseApp.Commit. crashK > 0 schedules the machine to die when it is about
// to issue its crashK-th physical write from now on.
func (b *bankMod) commitBlock(crashK uint64, power bool, keepDraw int) {
	target := b.version + 1
	b.snaps[target] = b.model.clone()
	hdr := &bft.Header{ChainID: bmChainID, Height: target, Time: b.now}
	before := b.mach.Ops
	if crashK > 0 {
		b.mach.CrashAt = before + crashK
	}
	var id stypes.CommitID
	crashed := guardCrash(func() {
		b.deliver.GetStore(b.baseKey).Set(nil, []byte("last_header"), amino.MustMarshal(hdr))
		b.deliver.MultiWrite()
		id = b.cms.Commit()
	})
	ops := b.mach.Ops - before
	if crashK == 0 {
		if crashed {
			kernel.Harnessf("bankmod: crash sentinel fired without a crash plan")
		}
		if id.Version != target {
			kernel.Harnessf("bankmod: commit produced version %d, expected %d", id.Version, target)
		}
		b.lastCommitOps = ops
		b.version = target
		b.c.Event("bm commit v%d %X ops=%d", target, id.Hash, ops)
		b.r.Probe("bankmod_commit")
		b.now = b.now.Add(time.Duration(1+b.c.Intn(60)) * time.Second)
		b.deliver = b.cms.MultiCacheWrap()
		b.check(fmt.Sprintf("after commit of version %d", target))
		return
	}
	// the process dies: either inside Commit (crashed) or right after it returned
	b.mach.CrashAt = 0
	un := b.disk.Unsynced()
	keep := un
	if power && un > 0 {
		keep = keepDraw % (un + 1) // power loss: a prefix of the unsynced tail survives
	}
	b.disk.Crash(keep)
	b.mach.Reboot()
	b.r.Fault("crash_in_commit")
	b.r.Probe("bankmod_crash_in_commit")
	if crashed {
		b.r.Probe("bankmod_crash_inside_commit_write")
	}
	b.c.Event("bm crash committing v%d k=%d inside=%v power=%v unsynced=%d kept=%d", target, crashK, crashed, power, un, keep)
	b.cms = nil // the process is gone; nothing to close
	b.reopen(target, fmt.Sprintf("after crash (op %d, inside commit=%v, power loss=%v) while committing version %d", crashK, crashed, power, target))
	b.now = b.now.Add(time.Duration(1+b.c.Intn(60)) * time.Second)
}

// reopen starts a new process over the disk and rolls the model to the durable version.
func (b *bankMod) reopen(maxVersion int64, where string) {
	if b.cms != nil {
		b.close()
	}
	if err := b.open(); err != nil {
		b.fail("module-reopen", "%s: the multistore does not load: %v", where, err)
		return
	}
	v := b.cms.LastCommitID().Version
	snap, ok := b.snaps[v]
	if !ok || v > maxVersion {
		kernel.Harnessf("bankmod: %s: reopened at version %d, the harness committed up to %d", where, v, maxVersion)
	}
	if v == maxVersion {
		b.r.Probe("bankmod_reopen_at_latest")
	} else {
		b.r.Probe("bankmod_reopen_at_earlier_version")
	}
	for k := range b.snaps {
		if k > v {
			delete(b.snaps, k)
		}
	}
	b.version = v
	b.model = snap.clone()
	b.c.Event("bm reopen v%d %X", v, b.cms.LastCommitID().Hash)
	b.r.Probe("bankmod_reopen")
	b.check(where + ", reopened at version " + fmt.Sprint(v))
}

// ---- state reading -----------------------------------------------------------------------

func (b *bankMod) dump(ms stypes.MultiStore) map[string]string {
	out := map[string]string{}
	it := ms.GetStore(b.mainKey).Iterator(nil, nil, nil)
	for ; it.Valid(); it.Next() {
		out[string(it.Key())] = string(it.Value())
	}
	if err := it.Error(); err != nil {
		kernel.Harnessf("bankmod: iterating the main store: %v", err)
	}
	it.Close()
	return out
}

func bmDiff(a, b map[string]string) []string {
	var out []string
	for k, v := range a {
		if w, ok := b[k]; !ok || w != v {
			out = append(out, k)
		}
	}
	for k := range b {
		if _, ok := a[k]; !ok {
			out = append(out, k)
		}
	}
	sort.Strings(out)
	return out
}

func (b *bankMod) keyName(k string) string {
	for _, pfx := range []string{auth.AddressStoreKeyPrefix, bank.BalancePrefix} {
		if strings.HasPrefix(k, pfx) && len(k) >= len(pfx)+crypto.AddressSize {
			var a crypto.Address
			copy(a[:], k[len(pfx):len(pfx)+crypto.AddressSize])
			nm, ok := b.byAddr[a]
			if !ok {
				nm = a.String()
			}
			return fmt.Sprintf("%s<%s>%q", pfx, nm, k[len(pfx)+crypto.AddressSize:])
		}
	}
	return fmt.Sprintf("%q", k)
}

func (b *bankMod) actorName(a crypto.Address) string {
	if nm, ok := b.byAddr[a]; ok {
		return nm
	}
	return "unknown:" + a.String()
}

// rawState reads balances, accounts and supply records straight from the keyspace
// (no typed bank accessor involved).
func (b *bankMod) rawState(ctx sdk.Context) (bal map[string]map[string]int64, acct map[string]bool, supply map[string]int64, problems []string) {
	bal, acct, supply = map[string]map[string]int64{}, map[string]bool{}, map[string]int64{}
	add := func(nm, d string, v int64) {
		if bal[nm] == nil {
			bal[nm] = map[string]int64{}
		}
		bal[nm][d] += v
	}
	err := b.acck.IterateAccountEntries(ctx, func(e auth.AccountEntry) bool {
		if e.Kind != auth.AccountKeyRegular || e.DecodeErr != nil || e.Account == nil {
			problems = append(problems, fmt.Sprintf("account key %X is not a decodable regular account", e.Key))
			return false
		}
		nm := b.actorName(e.Addr)
		acct[nm] = true
		for _, coin := range e.Account.GetCoins() {
			add(nm, coin.Denom, coin.Amount)
		}
		return false
	})
	if err != nil {
		problems = append(problems, fmt.Sprintf("account iteration: %v", err))
	}
	st := ctx.Store(b.mainKey)
	it := store.PrefixIterator(nil, st, []byte(bank.BalancePrefix))
	for ; it.Valid(); it.Next() {
		k, v := it.Key(), it.Value()
		n := len(bank.BalancePrefix) + crypto.AddressSize
		if len(k) <= n || len(v) != 8 {
			problems = append(problems, fmt.Sprintf("balance record %X=%X is malformed", k, v))
			continue
		}
		var a crypto.Address
		copy(a[:], k[len(bank.BalancePrefix):n])
		u := binary.BigEndian.Uint64(v)
		if u == 0 || u > math.MaxInt64 {
			problems = append(problems, fmt.Sprintf("balance record of %s %q holds %d", b.actorName(a), k[n:], u))
			continue
		}
		add(b.actorName(a), string(k[n:]), int64(u))
	}
	if err := it.Error(); err != nil {
		problems = append(problems, fmt.Sprintf("balance iteration: %v", err))
	}
	it.Close()
	it = store.PrefixIterator(nil, st, []byte(bank.SupplyPrefix))
	for ; it.Valid(); it.Next() {
		k, v := it.Key(), it.Value()
		if len(v) != 8 {
			problems = append(problems, fmt.Sprintf("supply record %q=%X is malformed", k, v))
			continue
		}
		u := binary.BigEndian.Uint64(v)
		if u == 0 || u > math.MaxInt64 {
			problems = append(problems, fmt.Sprintf("supply record %q holds %d", k, u))
			continue
		}
		supply[string(k[len(bank.SupplyPrefix):])] = int64(u)
	}
	if err := it.Error(); err != nil {
		problems = append(problems, fmt.Sprintf("supply iteration: %v", err))
	}
	it.Close()
	return
}

func unionKeys[V any](a, b map[string]V) []string {
	seen := map[string]bool{}
	for k := range a {
		seen[k] = true
	}
	for k := range b {
		seen[k] = true
	}
	return kernel.SortedKeys(seen)
}

// check is the oracle: invariants, then raw state vs model, then typed accessors vs model.
func (b *bankMod) check(where string) {
	if b.stop {
		return
	}
	ctx := b.ctx(b.deliver)
	view := b.bankk.ViewKeeper
	for _, inv := range []struct {
		name string
		f    sdk.Invariant
	}{
		{"SupplyInvariant", bank.SupplyInvariant(view)},
		{"BalanceKeysInvariant", bank.BalanceKeysInvariant(view)},
		{"AccountTierInvariant", bank.AccountTierInvariant(view)},
		{"AccountKeyspaceInvariant", auth.AccountKeyspaceInvariant(b.acck)},
	} {
		if msg, broken := inv.f(ctx); broken {
			b.fail("module-invariant:"+inv.name, "%s: %s", where, clip(msg, 1200))
			return
		}
	}
	m := b.model
	bal, acct, supply, problems := b.rawState(ctx)
	if len(problems) > 0 {
		b.fail("module-balance-vs-model", "%s: %s", where, clip(strings.Join(problems, "; "), 1200))
		return
	}
	for _, nm := range unionKeys(bal, m.bal) {
		for _, d := range unionKeys(bal[nm], m.bal[nm]) {
			if got, want := bal[nm][d], m.bal[nm][d]; got != want {
				b.fail("module-balance-vs-model", "%s: %s holds %d%s in the store, the reference model says %d (Δ %+d)", where, nm, got, d, want, got-want)
				return
			}
		}
	}
	for _, d := range unionKeys(supply, m.supply) {
		if got, want := supply[d], m.supply[d]; got != want {
			b.fail("module-supply-vs-model", "%s: recorded supply of %q is %d, the reference model says %d (only MintCoins/BurnCoins/RecomputeSupply may change it)", where, d, got, want)
			return
		}
	}
	sums := map[string]int64{}
	for _, ds := range bal {
		for d, v := range ds {
			sums[d] += v
		}
	}
	for _, d := range unionKeys(sums, supply) {
		if sums[d] != supply[d] {
			b.fail("module-supply-vs-model", "%s: balances of %q sum to %d but the recorded supply is %d", where, d, sums[d], supply[d])
			return
		}
	}
	// account objects: receiving coins creates the account. Not part of C14 by itself
	// (an empty account is well formed): observed and adopted, never decided.
	for _, nm := range unionKeys(acct, m.acct) {
		if acct[nm] != m.acct[nm] {
			b.r.Probe("bankmod_account_set_differs_from_model")
			if acct[nm] {
				m.acct[nm] = true
			} else {
				delete(m.acct, nm)
			}
		}
	}
	// the model's copy of the restricted-denoms parameter must still be the stored one (harness sync)
	var rd []string
	for _, d := range b.bankk.RestrictedDenoms(ctx) {
		rd = append(rd, d)
	}
	sort.Strings(rd)
	if got, want := strings.Join(rd, ","), strings.Join(kernel.SortedKeys(m.restricted), ","); got != want {
		kernel.Harnessf("bankmod: %s: restricted denoms parameter is [%s] in the store, [%s] in the model", where, got, want)
	}
	// typed accessors the VM and queries use
	err := bmGuard(func() error {
		for _, nm := range b.names {
			addr := b.addrs[nm]
			for _, d := range bmDenoms {
				if got := b.bankk.GetCoin(ctx, addr, d); got != m.get(nm, d) {
					return fmt.Errorf("GetCoin(%s,%q) = %d, the reference model says %d", nm, d, got, m.get(nm, d))
				}
			}
			if got, want := bmCoinsStr(b.bankk.GetCoins(ctx, addr)), bmCoinsStr(bmCoins(m.bal[nm])); got != want {
				return fmt.Errorf("GetCoins(%s) = %s, the reference model says %s", nm, got, want)
			}
		}
		return nil
	})
	if err != nil {
		b.fail("module-balance-vs-model", "%s: %v", where, err)
		return
	}
	err = bmGuard(func() error {
		for _, d := range bmDenoms {
			if got := b.bankk.TotalSupply(ctx, d); got != m.supply[d] {
				return fmt.Errorf("TotalSupply(%q) = %d, the reference model says %d", d, got, m.supply[d])
			}
		}
		return nil
	})
	if err != nil {
		b.fail("module-supply-vs-model", "%s: %v", where, err)
		return
	}
	b.r.Probe("bankmod_states_checked")
}

// ---- model semantics of every operation ------------------------------------------------

func (b *bankMod) isRestricted(m *bmModel, who string, amt std.Coins) bool {
	if len(m.restricted) == 0 {
		return false
	}
	hit := false
	for _, c := range amt {
		if m.restricted[c.Denom] && c.Amount > 0 {
			hit = true
		}
	}
	return hit && !(b.white[who] && m.acct[who])
}

// debit: bank.SubtractCoins (vesting=true) / subtractCoinsUnrestricted (vesting=false) of a
// well-formed amt. Every denom is checked before any is written.
func (b *bankMod) debit(m *bmModel, who string, amt std.Coins, vesting bool, bt int64) string {
	for _, c := range amt {
		have := m.get(who, c.Denom)
		if vesting {
			if v := b.vest[who]; v != nil {
				if l := v.locked(c.Denom, bt); l > 0 && max(have-l, 0) < c.Amount {
					return "locked"
				}
			}
		}
		if have < c.Amount {
			return "overdraw"
		}
	}
	for _, c := range amt {
		m.set(who, c.Denom, m.get(who, c.Denom)-c.Amount)
	}
	return ""
}

// credit: bank.AddCoins of a well-formed amt; receiving creates the account, even for {}.
func (b *bankMod) credit(m *bmModel, who string, amt std.Coins) {
	m.acct[who] = true
	for _, c := range amt {
		m.set(who, c.Denom, m.get(who, c.Denom)+c.Amount)
	}
}

// basicRefusal: must msg.ValidateBasic refuse this handler message? (bank/msgs.go)
func (b *bankMod) basicRefusal(o *bmOp) string {
	switch o.kind {
	case "send":
		if o.from == "zero" || o.to == "zero" {
			return "zero-address"
		}
		if !bmValidCoins(o.amt) || len(o.amt) == 0 {
			return "invalid-coins"
		}
	case "multisend":
		if len(o.ins) == 0 || len(o.outs) == 0 {
			return "no-inputs-or-outputs"
		}
		tin, tout := map[string]int64{}, map[string]int64{}
		for _, i := range o.ins {
			if !bmValidCoins(i.coins) || len(i.coins) == 0 {
				return "invalid-coins"
			}
			for _, c := range i.coins {
				tin[c.Denom] += c.Amount
			}
		}
		for _, i := range o.outs {
			if !bmValidCoins(i.coins) || len(i.coins) == 0 {
				return "invalid-coins"
			}
			for _, c := range i.coins {
				tout[c.Denom] += c.Amount
			}
		}
		for _, d := range unionKeys(tin, tout) {
			if tin[d] != tout[d] {
				return "in-out-mismatch"
			}
		}
	}
	return ""
}

// apply executes o on m the way the keeper is specified to; "" = success.
// On failure m may be partially updated: the caller discards it (the tx is discarded).
func (b *bankMod) apply(m *bmModel, o *bmOp, bt int64) string {
	switch o.kind {
	case "send": // handler -> SendCoins: restriction, then SubtractCoins, then AddCoins
		if r := b.basicRefusal(o); r != "" {
			return r
		}
		if b.isRestricted(m, o.from, o.amt) {
			return "restricted"
		}
		if r := b.debit(m, o.from, o.amt, true, bt); r != "" {
			return r
		}
		b.credit(m, o.to, o.amt)
	case "multisend": // handler -> InputOutputCoins: inputs debited one after another, then outputs credited
		if r := b.basicRefusal(o); r != "" {
			return r
		}
		for _, in := range o.ins {
			if b.isRestricted(m, in.who, in.coins) {
				return "restricted"
			}
			if r := b.debit(m, in.who, in.coins, true, bt); r != "" {
				return r
			}
		}
		for _, out := range o.outs {
			b.credit(m, out.who, out.coins)
		}
	case "k-send": // BankKeeper.SendCoins as the VM calls it
		zero := true
		for _, c := range o.amt {
			if c.Amount != 0 {
				zero = false
			}
		}
		if zero {
			return "" // amt.IsZero(): nothing happens, no account is created
		}
		if b.isRestricted(m, o.from, o.amt) {
			return "restricted"
		}
		if !bmValidCoins(o.amt) {
			return "invalid-coins"
		}
		if r := b.debit(m, o.from, o.amt, true, bt); r != "" {
			return r
		}
		b.credit(m, o.to, o.amt)
	case "k-sendu": // SendCoinsUnrestricted: no vesting, no restriction
		if !bmValidCoins(o.amt) {
			return "invalid-coins"
		}
		if r := b.debit(m, o.from, o.amt, false, bt); r != "" {
			return r
		}
		b.credit(m, o.to, o.amt)
	case "k-subadd": // SubtractCoins then AddCoins of the same amount (a paired transfer)
		if !bmValidCoins(o.amt) {
			return "invalid-coins"
		}
		if r := b.debit(m, o.from, o.amt, true, bt); r != "" {
			return r
		}
		b.credit(m, o.to, o.amt)
	case "k-mint":
		if !bmValidCoins(o.amt) {
			return "invalid-coins"
		}
		for _, c := range o.amt {
			if m.supply[c.Denom] > math.MaxInt64-c.Amount {
				return "supply-range"
			}
		}
		b.credit(m, o.to, o.amt)
		for _, c := range o.amt {
			m.addSupply(c.Denom, c.Amount)
		}
	case "k-burn":
		if !bmValidCoins(o.amt) {
			return "invalid-coins"
		}
		for _, c := range o.amt {
			if m.supply[c.Denom] < c.Amount {
				return "supply-range"
			}
		}
		if r := b.debit(m, o.from, o.amt, true, bt); r != "" {
			return r
		}
		for _, c := range o.amt {
			m.addSupply(c.Denom, -c.Amount)
		}
	case "k-reseed": // SetCoins (replace-all) followed by RecomputeSupply, as genesis does
		if !bmValidCoins(o.amt) {
			return "invalid-coins"
		}
		delete(m.bal, o.to)
		m.acct[o.to] = true
		for _, c := range o.amt {
			m.set(o.to, c.Denom, c.Amount)
		}
		m.supply = m.sums()
	case "param":
		m.restricted = map[string]bool{}
		for _, d := range o.list {
			m.restricted[d] = true
		}
	default:
		kernel.Harnessf("bankmod: unknown op kind %q", o.kind)
	}
	return ""
}

// ---- real execution ------------------------------------------------------------------------

func (b *bankMod) ios(xs []bmIO) (ins []bank.Input, outs []bank.Output) {
	for _, x := range xs {
		ins = append(ins, bank.NewInput(b.addrs[x.who], x.coins))
		outs = append(outs, bank.NewOutput(b.addrs[x.who], x.coins))
	}
	return
}

func (b *bankMod) msgOf(o *bmOp) std.Msg {
	switch o.kind {
	case "send":
		return bank.NewMsgSend(b.addrs[o.from], b.addrs[o.to], o.amt)
	case "multisend":
		ins, _ := b.ios(o.ins)
		_, outs := b.ios(o.outs)
		return bank.NewMsgMultiSend(ins, outs)
	}
	return nil
}

func (b *bankMod) exec(ctx sdk.Context, o *bmOp) error {
	from, to := b.addrs[o.from], b.addrs[o.to]
	switch o.kind {
	case "send", "multisend":
		return resErr(bank.NewHandler(b.bankk).Process(ctx, b.msgOf(o)))
	case "k-send":
		return b.bankk.SendCoins(ctx, from, to, o.amt)
	case "k-sendu":
		return b.bankk.SendCoinsUnrestricted(ctx, from, to, o.amt)
	case "k-subadd":
		if err := b.bankk.SubtractCoins(ctx, from, o.amt); err != nil {
			return err
		}
		return b.bankk.AddCoins(ctx, to, o.amt)
	case "k-mint":
		return b.bankk.MintCoins(ctx, to, o.amt)
	case "k-burn":
		return b.bankk.BurnCoins(ctx, from, o.amt)
	case "k-reseed":
		if err := b.bankk.SetCoins(ctx, to, o.amt); err != nil {
			return err
		}
		b.bankk.RecomputeSupply(ctx)
		return nil
	case "param":
		list := append([]string{}, o.list...)
		b.bankk.SetRestrictedDenoms(ctx, list)
		return nil
	}
	kernel.Harnessf("bankmod: unknown op kind %q", o.kind)
	return nil
}

// runTx delivers one transaction the way BaseApp.runTx does and checks it.
func (b *bankMod) runTx(t *bmTx) {
	b.txn++
	bt := b.now.Unix()
	desc := fmt.Sprintf("tx %d {%s}", b.txn, t.String())
	feeColl := "fee"

	// ---- what the reference model says ----
	want := b.model // state the tx must leave
	wantStage, wantWhy, wantAt := "ok", "", -1
	for i, o := range t.ops {
		if o.handlerMsg() {
			if r := b.basicRefusal(o); r != "" {
				wantStage, wantWhy, wantAt = "basic", r, i
				break
			}
		}
	}
	if wantStage == "ok" {
		trial := b.model.clone()
		if t.fee > 0 {
			switch {
			case !trial.acct[t.payer]:
				wantStage, wantWhy = "ante", "unknown fee payer"
			case trial.get(t.payer, bmUgnot) < t.fee:
				wantStage, wantWhy = "ante", "fee above balance"
			default:
				fee := std.Coins{std.NewCoin(bmUgnot, t.fee)}
				b.debit(trial, t.payer, fee, false, bt)
				b.credit(trial, feeColl, fee)
			}
		}
		if wantStage == "ok" {
			afterAnte := trial.clone()
			for i, o := range t.ops {
				if r := b.apply(trial, o, bt); r != "" {
					wantStage, wantWhy, wantAt = "msgs", r, i
					break
				}
			}
			if wantStage == "ok" {
				want = trial
			} else {
				want = afterAnte
			}
		}
	}

	// ---- the real thing ----
	pre := b.dump(b.deliver)
	gotStage, gotErr := "ok", error(nil)
	ref := pre // what a failed tx must leave, byte for byte
	for _, o := range t.ops {
		if !o.handlerMsg() {
			continue
		}
		msg := b.msgOf(o)
		if err := bmGuard(func() error { return msg.ValidateBasic() }); err != nil {
			gotStage, gotErr = "basic", err
			break
		}
	}
	if gotStage == "ok" {
		txCache := b.deliver.MultiCacheWrap()
		ctx := b.ctx(txCache)
		if t.fee > 0 {
			// auth ante handler, phases 2 and 3: deduct the fee, reload, bump the sequence
			err := bmGuard(func() error {
				payer := b.addrs[t.payer]
				acc := b.acck.GetAccount(ctx, payer)
				if acc == nil {
					return fmt.Errorf("unknown address")
				}
				if err := resErr(auth.DeductFees(b.bankk, ctx, acc, b.addrs[feeColl], std.Coins{std.NewCoin(bmUgnot, t.fee)})); err != nil {
					return err
				}
				acc = b.acck.GetAccount(ctx, payer)
				acc.SetSequence(acc.GetSequence() + 1)
				b.acck.SetAccount(ctx, acc)
				return nil
			})
			if err != nil {
				gotStage, gotErr = "ante", err // abort: the cache is dropped
			} else {
				ref = b.dump(txCache)
			}
		}
		if gotStage == "ok" {
			cp := txCache.(stypes.Checkpointable)
			cp.Checkpoint()
			err := bmGuard(func() error {
				for _, o := range t.ops {
					if err := b.exec(ctx, o); err != nil {
						return err // runMsgs stops at the first failed message
					}
				}
				return nil
			})
			if err != nil {
				gotStage, gotErr = "msgs", err
				cp.WriteCheckpoint() // only the ante writes persist
			} else {
				txCache.MultiWrite()
			}
		}
	}
	b.c.Event("bm %s want=%s(%s) got=%s(%s)", desc, wantStage, wantWhy, gotStage, bmErrType(gotErr))

	// ---- compare ----
	if gotStage != "ok" {
		if d := bmDiff(ref, b.dump(b.deliver)); len(d) > 0 {
			var ks []string
			for _, k := range d[:min(len(d), 6)] {
				ks = append(ks, b.keyName(k))
			}
			b.fail("module-failed-tx-left-effects", "%s failed at stage %s (%v) but %d keys of the main store differ from the state before its messages ran: %s", desc, gotStage, gotErr, len(d), strings.Join(ks, " "))
			return
		}
	}
	if wantStage == "ok" && gotStage != "ok" {
		kernel.Harnessf("bankmod: %s must succeed according to the reference model but failed at stage %s: %v", desc, gotStage, gotErr)
	}
	if wantStage == "basic" && gotStage != "basic" {
		b.r.Probe("bankmod_validatebasic_accepted_what_model_refuses")
	}
	if wantStage != "ok" && gotStage == "ok" {
		desc += fmt.Sprintf(" [the reference model requires this tx to be refused: %s at stage %s, but it succeeded]", wantWhy, wantStage)
		// it must then at least have had no effect beyond what a refused tx leaves
		if wantStage != "msgs" {
			ref = pre
		}
		if d := bmDiff(ref, b.dump(b.deliver)); len(d) > 0 {
			var ks []string
			for _, k := range d[:min(len(d), 6)] {
				ks = append(ks, b.keyName(k))
			}
			b.fail("module-failed-tx-left-effects", "%s: %d keys of the main store differ from what a refused tx leaves: %s", desc, len(d), strings.Join(ks, " "))
			return
		}
		b.r.Probe("bankmod_refusal_expected_but_effectless_success")
	}
	created := 0
	for nm := range want.acct {
		if !b.model.acct[nm] {
			created++
		}
	}
	b.model = want
	b.check("after " + desc)
	if b.stop {
		return
	}
	// probes
	b.r.Steps++
	if gotStage == "ok" {
		b.r.ProbeN("bankmod_accounts_created", created)
		for _, o := range t.ops {
			b.r.Probe("bankmod_" + o.kind + "_ok")
		}
		b.r.Probe("bankmod_tx_ok")
		if t.fee > 0 {
			b.r.Probe("bankmod_fee_paid")
		}
	} else {
		k := t.ops[0].kind
		if wantAt >= 0 {
			k = t.ops[wantAt].kind
		}
		b.r.Probe("bankmod_" + k + "_failed")
		b.r.Probe("bankmod_tx_refused_at_" + gotStage)
		switch wantWhy {
		case "overdraw":
			b.r.Probe("bankmod_overdraw_refused")
		case "restricted":
			b.r.Probe("bankmod_restricted_denom_refused")
		case "locked":
			b.r.Probe("bankmod_vesting_locked_refused")
		case "invalid-coins":
			b.r.Probe("bankmod_invalid_coins_refused")
		case "in-out-mismatch":
			b.r.Probe("bankmod_in_out_mismatch_refused")
		case "supply-range":
			b.r.Probe("bankmod_supply_range_refused")
		}
		if gotStage == "msgs" && t.fee > 0 {
			b.r.Probe("bankmod_failed_tx_kept_fee_only")
		}
	}
	for _, o := range t.ops {
		if o.kind != "multisend" {
			continue
		}
		seen := map[string]bool{}
		for _, i := range o.ins {
			if seen[i.who] {
				b.r.Probe("bankmod_multisend_dup_input")
				if gotStage == "ok" {
					b.r.Probe("bankmod_multisend_dup_input_ok")
				}
				break
			}
			seen[i.who] = true
		}
		seenOut := map[string]bool{}
		for _, i := range o.outs {
			if seenOut[i.who] {
				b.r.Probe("bankmod_multisend_dup_output")
				break
			}
			seenOut[i.who] = true
		}
		for _, i := range o.outs {
			if seen[i.who] {
				b.r.Probe("bankmod_multisend_output_to_input_address")
				break
			}
		}
	}
}

// ---- workload generation -------------------------------------------------------------------

func (b *bankMod) pickAny() string {
	// funded ×2, fresh ×2, fee collector, zero address
	n := 2*len(bmFunded) + 2*len(bmFresh) + 2
	i := b.c.Intn(n)
	switch {
	case i < 2*len(bmFunded):
		return bmFunded[i/2]
	case i < 2*len(bmFunded)+2*len(bmFresh):
		return bmFresh[(i-2*len(bmFunded))/2]
	case i == n-2:
		return "fee"
	}
	return "zero"
}

func (b *bankMod) pickSender() string {
	c := b.c
	if c.Chance(1, 8) {
		return b.pickAny()
	}
	// an address that holds something, if any does
	var holders []string
	for _, nm := range b.names {
		if len(b.model.bal[nm]) > 0 {
			holders = append(holders, nm)
		}
	}
	if len(holders) == 0 {
		return bmFunded[c.Intn(len(bmFunded))]
	}
	return holders[c.Intn(len(holders))]
}

func (b *bankMod) pickAmount(bal int64) int64 {
	c := b.c
	var v int64
	switch c.Weighted([]int{3, 1, 1, 1, 2, 2, 1}) {
	case 0:
		v = int64(1 + c.Intn(int(max(1, min(bal, 20)))))
	case 1:
		v = bal // exact drain: the record must disappear
	case 2:
		v = bal/2 + 1 // one fits, two do not
	case 3:
		v = bal + 1 // overdraw by one
	case 4:
		v = bal * 2 / 5 // two fit
	case 5:
		v = 1
	default:
		v = bal + 1 + int64(c.Intn(100))
	}
	if v < 1 {
		v = 1
	}
	return v
}

// genCoins draws a well-formed coin set sized against what holder has in the model.
func (b *bankMod) genCoins(holder string) std.Coins {
	return b.genCoinsFrom(b.model.bal[holder])
}

func (b *bankMod) genCoinsFrom(held map[string]int64) std.Coins {
	c := b.c
	amts := map[string]int64{}
	for _, d := range bmDenoms {
		if held[d] > 0 && c.Bool() {
			amts[d] = b.pickAmount(held[d])
		}
	}
	if len(amts) == 0 {
		d := bmDenoms[c.Intn(len(bmDenoms))]
		amts[d] = b.pickAmount(held[d])
	}
	return bmCoins(amts)
}

func (b *bankMod) badCoins() std.Coins {
	c := b.c
	switch c.Intn(8) {
	case 0:
		return std.Coins{{Denom: bmFoo, Amount: 0}}
	case 1:
		return std.Coins{{Denom: bmFoo, Amount: -int64(1 + c.Intn(50))}}
	case 2:
		return std.Coins{{Denom: bmUgnot, Amount: 5}, {Denom: bmFoo, Amount: 5}} // unsorted
	case 3:
		return std.Coins{{Denom: bmFoo, Amount: 1}, {Denom: bmFoo, Amount: 2}} // duplicate denom
	case 4:
		return std.Coins{{Denom: "Foo", Amount: 3}}
	case 5:
		return std.Coins{}
	case 6:
		return std.Coins{{Denom: bmFoo, Amount: 4}, {Denom: bmUgnot, Amount: 0}}
	}
	return std.Coins{{Denom: bmTok, Amount: 2}, {Denom: "ab", Amount: 1}}
}

func (b *bankMod) genSend() *bmOp {
	o := &bmOp{kind: "send", from: b.pickSender(), to: b.pickAny()}
	if b.c.Chance(1, 8) {
		o.to = o.from // a transfer to oneself still needs the balance
	}
	o.amt = b.genCoins(o.from)
	if b.c.Chance(1, 12) {
		o.amt = b.badCoins()
	}
	return o
}

func (b *bankMod) genMultiSend() *bmOp {
	c := b.c
	o := &bmOp{kind: "multisend"}
	flavour := c.Weighted([]int{12, 1, 1, 1}) // well formed | in≠out | malformed coin set | empty side
	nIn, nOut := 1+c.Intn(3), 1+c.Intn(3)
	total := map[string]int64{}
	left := map[string]map[string]int64{}
	for i := 0; i < nIn; i++ {
		var who string
		if i > 0 && c.Bool() {
			who = o.ins[c.Intn(i)].who // the same address in several inputs
		} else {
			who = b.pickSender()
		}
		// sized against what the earlier inputs of this message leave (the sum fits), or against
		// the balance before the message (every input fits on its own, the sum may not)
		if left[who] == nil {
			left[who] = map[string]int64{}
			for d, v := range b.model.bal[who] {
				left[who][d] = v
			}
		}
		var coins std.Coins
		if c.Chance(1, 3) {
			coins = b.genCoins(who)
		} else {
			coins = b.genCoinsFrom(left[who])
		}
		for _, cn := range coins {
			total[cn.Denom] += cn.Amount
			left[who][cn.Denom] = max(left[who][cn.Denom]-cn.Amount, 0)
		}
		o.ins = append(o.ins, bmIO{who: who, coins: coins})
	}
	parts := make([]map[string]int64, nOut)
	for j := range parts {
		parts[j] = map[string]int64{}
	}
	for _, d := range bmDenoms {
		rem := total[d]
		if rem == 0 {
			continue
		}
		for j := 0; j < nOut-1; j++ {
			p := int64(c.Intn(int(rem) + 1))
			if p > 0 {
				parts[j][d] = p
			}
			rem -= p
		}
		if rem > 0 {
			parts[nOut-1][d] = rem
		}
	}
	for j := 0; j < nOut; j++ {
		var who string
		switch {
		case j > 0 && c.Chance(1, 3):
			who = o.outs[c.Intn(j)].who // the same address in several outputs
		case c.Chance(1, 3):
			who = o.ins[c.Intn(nIn)].who // output to an input address
		default:
			who = b.pickAny()
		}
		o.outs = append(o.outs, bmIO{who: who, coins: bmCoins(parts[j])})
	}
	// an empty output would be malformed; the total is positive, so at least one remains
	var keep []bmIO
	for _, out := range o.outs {
		if len(out.coins) > 0 {
			keep = append(keep, out)
		}
	}
	o.outs = keep
	switch flavour {
	case 1:
		x := &o.outs[c.Intn(len(o.outs))]
		cs := append(std.Coins{}, x.coins...)
		cs[c.Intn(len(cs))].Amount += int64(1 + c.Intn(3))
		x.coins = cs
	case 2:
		if c.Bool() {
			o.ins[c.Intn(len(o.ins))].coins = b.badCoins()
		} else {
			o.outs[c.Intn(len(o.outs))].coins = b.badCoins()
		}
	case 3:
		if c.Bool() {
			o.ins = nil
		} else {
			o.outs = nil
		}
	}
	return o
}

// first: no earlier message of the tx can have moved the supply the amounts are sized against
func (b *bankMod) genKeeperOp(first bool) *bmOp {
	c := b.c
	kinds := []string{"k-mint", "k-burn", "k-sendu", "k-send", "k-subadd", "k-reseed"}
	o := &bmOp{kind: kinds[c.Weighted([]int{3, 3, 2, 2, 2, 1})]}
	switch o.kind {
	case "k-mint":
		o.to = b.pickAny()
		amts := map[string]int64{}
		d := []string{bmTok, bmTok, bmTok, bmFoo, bmFoo, bmUgnot}[c.Intn(6)]
		amts[d] = int64(1 + c.Intn(300))
		if c.Chance(1, 4) {
			amts[bmDenoms[c.Intn(len(bmDenoms))]] = int64(1 + c.Intn(300))
		}
		if c.Chance(1, 10) && first && b.model.supply[d] > 0 {
			amts[d] = math.MaxInt64 - b.model.supply[d] + 1 // one past the int64 supply cap
		}
		o.amt = bmCoins(amts)
	case "k-burn":
		o.from = b.pickSender()
		o.amt = b.genCoins(o.from)
	case "k-reseed":
		o.to = b.pickAny()
		amts := map[string]int64{}
		for _, d := range bmDenoms {
			if c.Bool() {
				amts[d] = int64(1 + c.Intn(400))
			}
		}
		o.amt = bmCoins(amts)
	default:
		o.from, o.to = b.pickSender(), b.pickAny()
		if c.Chance(1, 8) {
			o.to = o.from
		}
		o.amt = b.genCoins(o.from)
	}
	if c.Chance(1, 10) {
		o.amt = b.badCoins()
	}
	return o
}

func (b *bankMod) genTx(wKind, wMsg []int, feeDen int) *bmTx {
	c := b.c
	t := &bmTx{}
	switch c.Weighted(wKind) {
	case 0: // 1-3 bank handler messages
		n := 1 + c.Weighted([]int{6, 2, 1})
		for i := 0; i < n; i++ {
			if c.Weighted(wMsg) == 0 {
				t.ops = append(t.ops, b.genMultiSend())
			} else {
				t.ops = append(t.ops, b.genSend())
			}
		}
	case 1: // what a VM message does with the keeper (optionally after a bank message)
		if c.Chance(1, 4) {
			t.ops = append(t.ops, b.genSend())
		}
		t.ops = append(t.ops, b.genKeeperOp(true))
		if c.Chance(1, 4) {
			t.ops = append(t.ops, b.genKeeperOp(false))
		}
	default: // governance toggles the restricted-denoms parameter
		o := &bmOp{kind: "param"}
		if c.Bool() { // otherwise: restrictions off
			for _, d := range bmDenoms {
				if c.Chance(1, 3) {
					o.list = append(o.list, d)
				}
			}
		}
		t.ops = append(t.ops, o)
		if c.Bool() {
			t.ops = append(t.ops, b.genSend())
		}
	}
	if feeDen > 0 && c.Chance(1, feeDen) {
		t.payer = b.pickSender()
		t.fee = int64(1 + c.Intn(10))
		if c.Chance(1, 4) {
			t.fee = b.pickAmount(b.model.get(t.payer, bmUgnot))
		}
	}
	return t
}

// ---- the phase -----------------------------------------------------------------------------------

func bankModulePhase(c *kernel.Choices, p kernel.Params, r *kernel.Result) {
	b := &bankMod{c: c, r: r, addrs: map[string]crypto.Address{}, byAddr: map[crypto.Address]string{},
		vest: map[string]*bmVest{}, white: map[string]bool{}, model: newBmModel(), snaps: map[int64]*bmModel{}}
	b.mach = simdb.NewMachine()
	b.disk = simdb.NewDisk("bankmod", b.mach)
	b.now = genesisTime
	b.names = append(append(append([]string{}, bmFunded...), bmFresh...), "fee", "zero")
	for _, nm := range b.names {
		var a crypto.Address
		switch nm {
		case "fee":
			a = crypto.AddressFromPreimage([]byte(auth.DefaultFeeCollectorName))
		case "zero":
		default:
			a = crypto.AddressFromPreimage([]byte("verif-bankmod-" + nm))
		}
		b.addrs[nm], b.byAddr[a] = a, nm
	}
	b.fast = !c.Chance(1, 4)
	b.prune = []stypes.PruneStrategy{stypes.PruneNothingStrategy, stypes.PruneEverythingStrategy, stypes.PruneSyncableStrategy}[c.Intn(3)]
	ntx := 10 + c.Intn(26)
	if p.Tier == "thorough" {
		ntx = 15 + c.Intn(60)
	}
	wKind := []int{4 + c.Intn(4), 1 + c.Intn(4), c.Intn(3)} // handler tx | keeper tx | param toggle
	wMsg := []int{1 + c.Intn(4), 1 + c.Intn(3)}              // multisend | send
	feeDen := []int{0, 2, 4}[c.Intn(3)]
	c.Event("bm start fast=%v prune=%s ntx=%d wKind=%v wMsg=%v feeDen=%d", b.fast, b.prune, ntx, wKind, wMsg, feeDen)
	if err := b.open(); err != nil {
		kernel.Harnessf("bankmod: opening the empty multistore: %v", err)
	}
	defer func() {
		if b.cms != nil {
			b.close()
		}
	}()
	b.genesis()
	b.check("after genesis")
	if b.stop {
		return
	}
	b.commitBlock(0, false, 0)
	for i := 0; i < ntx && !b.stop; i++ {
		b.runTx(b.genTx(wKind, wMsg, feeDen))
		if b.stop {
			return
		}
		switch {
		case c.Chance(1, 3): // end of block
			if c.Chance(1, 5) {
				k := uint64(1 + c.Intn(int(b.lastCommitOps)+1)) // lastCommitOps+1: dies right after Commit returned
				power := c.Bool()
				b.commitBlock(k, power, c.Intn(8))
			} else {
				b.commitBlock(0, false, 0)
				if !b.stop && c.Chance(1, 4) {
					b.reopen(b.version, "after close and reopen")
				}
			}
		case c.Chance(1, 16): // the process restarts in the middle of a block: its txs are gone
			b.r.Probe("bankmod_reopen_mid_block")
			b.reopen(b.version, "after close and reopen in the middle of a block")
		}
	}
	if b.stop {
		return
	}
	// always end with a commit and a cold reopen
	b.commitBlock(0, false, 0)
	if !b.stop {
		b.reopen(b.version, "after the final close and reopen")
	}
}
