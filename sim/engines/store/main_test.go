package store

import (
	"os"
	"testing"

	"verif/sim/kernel"
)

func TestSim(t *testing.T) {
	if os.Getenv("VERIF_PROP") == "" {
		t.Skip("driven by /verif/check")
	}
	code := kernel.Main("store", map[string]kernel.Engine{
		"C22": run,
	})
	if code != 0 {
		os.Exit(code)
	}
}
