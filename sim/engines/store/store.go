// Engine store: the real cache.Store / prefix.Store / cachemulti.Store layers
// stacked in a random order over a simdb-backed dbadapter.Store, a
// dbadapter.Store over db.CollectingDB, or a store/bptree.Store, driven by a
// seeded history of Get/Has/Set/Delete/Iterator/ReverseIterator/Checkpoint/
// WriteCheckpoint/Write/Flush, nested cache wraps, discards and whole
// transactions that follow the sequence of BaseApp.runTx.
//
// Faults: (1) store operations carry a types.GasContext whose meter limit is
// drawn so that the out-of-gas panic lands on any charge point (flat and
// per-byte charges of Get, Set, Delete, iterator open and iterator Next);
// after recovery the interrupted operation may or may not have taken effect
// (that one operation only) and the tx-abort path of runTx is taken;
// (2) simdb write errors / crash at the physical writes of a Write into the
// base store, of the bptree Commit and of the collector drain; (3) process
// kill between operations.
//
// Oracle (C22): an ordered-map overlay model per layer in absolute key space,
// compared on every layer after every operation.
package store

import (
	"bytes"
	"errors"
	"fmt"
	"runtime/debug"
	"sort"
	"strings"

	dbm "github.com/gnolang/gno/tm2/pkg/db"
	bpstore "github.com/gnolang/gno/tm2/pkg/store/bptree"
	"github.com/gnolang/gno/tm2/pkg/store/cache"
	"github.com/gnolang/gno/tm2/pkg/store/cachemulti"
	"github.com/gnolang/gno/tm2/pkg/store/dbadapter"
	"github.com/gnolang/gno/tm2/pkg/store/prefix"
	"github.com/gnolang/gno/tm2/pkg/store/types"

	"verif/sim/kernel"
	"verif/sim/simdb"
)

const (
	kBase = iota
	kCache
	kPrefix
)

const (
	colDB         = iota // dbadapter.Store over simdb
	colBptree            // store/bptree.Store over simdb
	colCollecting        // dbadapter.Store over db.CollectingDB over simdb
)

var colNames = []string{"dbadapter", "bptree", "dbadapter+collecting"}

const maxLayers = 6 // per column, above the base

type ent struct {
	val []byte
	del bool
}

type kvp struct{ k, v []byte }

type layer struct {
	id     int
	kind   int
	col    *column
	st     types.Store
	parent *layer
	abs    string // absolute prefix of this layer's key space
	pfx    []byte
	how    string
	dead   bool

	// cache layers
	ov   map[string]ent // dirty entries, absolute keys
	ckpt map[string]ent // nil = no checkpoint
	lvl  *level

	// model of sortedCache / unsortedCache membership, for probes only
	iterBuilt bool
	unsorted  map[string]bool
	sorted    map[string]bool
}

// level ties the cache layers created together by one cachemulti store (or a
// single plain cache layer).
type level struct {
	id     int
	multi  bool
	cms    cachemulti.Store
	layers []*layer
}

type column struct {
	idx  int
	kind int
	key  types.StoreKey
	disk *simdb.Disk
	db   *simdb.DB
	coll *dbm.BatchCollector
	bst  *bpstore.Store
	opts types.StoreOptions

	base      map[string][]byte // model of the base store's content (for collecting: the real DB)
	pend      map[string]ent    // collecting: ops waiting in the collector
	committed map[string][]byte // bptree: content of the last committed version
	inflight  map[string][]byte // bptree: content a Commit in progress would make durable
	version   int64

	stack []*layer
	floor int      // index of the running tx's layer (-1: none): no structural op at or below it
	wlog  []string // absolute keys mutated anywhere in this column, in order
}

func (col *column) top() *layer { return col.stack[len(col.stack)-1] }

// iterOK: CollectingDB iterators are documented not to merge pending writes, so
// nothing is demanded of iteration on that column while the collector is non-empty.
func (col *column) iterOK() bool { return !(col.kind == colCollecting && len(col.pend) > 0) }

type heldIter struct {
	id         int
	l          *layer
	it         types.Iterator
	start, end []byte
	asc        bool
	exp        []kvp // expected remaining pairs (layer-local keys), in iteration order
	since      int   // position in col.wlog at creation
	limit      int
	yielded    int
	last       []byte
	hasLast    bool
	strictNote string
}

type outcome int

const (
	okRes outcome = iota
	oogRes
	dbErrRes
	crashRes
	failedRes
)

type sim struct {
	c    *kernel.Choices
	r    *kernel.Result
	prop string
	tier string
	p    kernel.Params

	mach *simdb.Machine
	cols []*column

	gctx    *types.GasContext
	unit    int
	pool    [][]byte
	valCtr  int
	nextID  int
	open    []*heldIter
	stop    bool
	vmode   int
	inTx    bool
	txOOG   bool
	writes  int
	armed   string
	weights [19]int
}

// fail reports a violation. One listed in KNOWN_FINDINGS (matched by its
// specific oracle id) is recorded and the run ends quietly: the state after it
// is not trustworthy.
func (s *sim) fail(oracle, format string, args ...any) {
	if s.stop {
		return
	}
	s.stop = true
	v := &kernel.Violation{Property: s.prop, Oracle: oracle, Signature: oracle, Msg: fmt.Sprintf(format, args...)}
	if s.p.IsKnown(v) != nil {
		s.r.Known = append(s.r.Known, *v)
		s.r.Probe("known:" + oracle)
		s.c.Event("known finding %s: run ends", oracle)
		return
	}
	s.r.Fail(s.prop, oracle, "%s", v.Msg)
	s.c.Event("VIOLATION %s", oracle)
}

func (s *sim) id() int { s.nextID++; return s.nextID }

// ---- small helpers ---------------------------------------------------------

func cp(b []byte) []byte {
	if b == nil {
		return nil
	}
	return append([]byte{}, b...)
}

func copyOv(m map[string]ent) map[string]ent {
	n := make(map[string]ent, len(m))
	for k, v := range m {
		n[k] = v
	}
	return n
}

func copyKV(m map[string][]byte) map[string][]byte {
	n := make(map[string][]byte, len(m))
	for k, v := range m {
		n[k] = v
	}
	return n
}

func sortedOv(m map[string]ent) []string { return kernel.SortedKeys(m) }

func inDomain(k, start, end []byte) bool {
	if bytes.Compare(k, start) < 0 {
		return false
	}
	if end != nil && bytes.Compare(end, k) <= 0 {
		return false
	}
	return true
}

func cmpDir(a, b []byte, asc bool) int {
	if asc {
		return bytes.Compare(a, b)
	}
	return -bytes.Compare(a, b)
}

func (l *layer) index() int {
	for i, x := range l.col.stack {
		if x == l {
			return i
		}
	}
	return -1
}

// recv is the store that actually receives a mutation issued on l: the nearest
// cache layer at or below l, or the base.
func recv(l *layer) *layer {
	for l.kind == kPrefix {
		l = l.parent
	}
	return l
}

func (l *layer) String() string {
	switch l.kind {
	case kBase:
		return fmt.Sprintf("L%d:base(%s)", l.id, colNames[l.col.kind])
	case kCache:
		return fmt.Sprintf("L%d:cache(%s)", l.id, l.how)
	}
	return fmt.Sprintf("L%d:prefix(%x)", l.id, l.pfx)
}

func (col *column) describe() string {
	var parts []string
	for _, l := range col.stack {
		parts = append(parts, l.String())
	}
	return strings.Join(parts, " < ")
}

// ---- model -----------------------------------------------------------------

func (s *sim) view(l *layer, abs string) ([]byte, bool) {
	for x := l; x != nil; x = x.parent {
		switch x.kind {
		case kCache:
			if e, ok := x.ov[abs]; ok {
				return e.val, !e.del
			}
		case kBase:
			col := x.col
			if e, ok := col.pend[abs]; ok {
				return e.val, !e.del
			}
			v, ok := col.base[abs]
			return v, ok
		}
	}
	kernel.Harnessf("layer chain without base")
	return nil, false
}

// viewKeys returns the sorted absolute keys visible at l (within l's key space).
func (s *sim) viewKeys(l *layer) []string {
	cand := map[string]bool{}
	for x := l; x != nil; x = x.parent {
		switch x.kind {
		case kCache:
			for k := range x.ov {
				cand[k] = true
			}
		case kBase:
			for k := range x.col.pend {
				cand[k] = true
			}
			for k := range x.col.base {
				cand[k] = true
			}
		}
	}
	var out []string
	for k := range cand {
		if !strings.HasPrefix(k, l.abs) {
			continue
		}
		if _, ok := s.view(l, k); ok {
			out = append(out, k)
		}
	}
	sort.Strings(out)
	return out
}

func (s *sim) modelRange(l *layer, start, end []byte, asc bool) []kvp {
	var out []kvp
	for _, abs := range s.viewKeys(l) {
		k := []byte(abs[len(l.abs):])
		if !inDomain(k, start, end) {
			continue
		}
		v, _ := s.view(l, abs)
		out = append(out, kvp{k, v})
	}
	if !asc {
		for i, j := 0, len(out)-1; i < j; i, j = i+1, j-1 {
			out[i], out[j] = out[j], out[i]
		}
	}
	return out
}

func (s *sim) modelMutate(t *layer, abs string, e ent) {
	col := t.col
	col.wlog = append(col.wlog, abs)
	switch t.kind {
	case kCache:
		t.ov[abs] = e
		t.unsorted[abs] = true
	case kBase:
		if col.kind == colCollecting {
			col.pend[abs] = e
			return
		}
		if e.del {
			delete(col.base, abs)
		} else {
			col.base[abs] = e.val
		}
	default:
		kernel.Harnessf("mutation received by a prefix layer")
	}
}

// modelWrite flushes l's dirty entries into the store below it.
func (s *sim) modelWrite(l *layer) {
	t := recv(l.parent)
	n := 0
	for _, abs := range sortedOv(l.ov) {
		e := l.ov[abs]
		if e.del {
			if _, ok := s.view(l.parent, abs); !ok {
				s.r.Probe("write.delete_of_key_absent_below")
			}
		}
		s.modelMutate(t, abs, e)
		n++
	}
	if n == 0 {
		s.r.Probe("write.empty")
	}
	s.r.ProbeN("write.keys_flushed", n)
	if t.kind == kBase {
		s.r.Probe("write.into_base")
	} else {
		s.r.Probe("write.into_cache")
	}
	l.ov = map[string]ent{}
	l.ckpt = nil
	l.unsorted = map[string]bool{}
	l.sorted = map[string]bool{}
	l.iterBuilt = false
	s.writes++
}

// ---- guarded calls ---------------------------------------------------------

func (s *sim) call(kind string, f func()) (out outcome) {
	defer func() {
		x := recover()
		if x == nil {
			return
		}
		switch e := x.(type) {
		case types.OutOfGasError:
			out = oogRes
			s.r.Fault("out_of_gas")
			s.r.Probe("oog." + kind + "." + e.Descriptor)
			s.c.Event("  out of gas inside %s at charge %q", kind, e.Descriptor)
		case simdb.CrashSentinel:
			out = crashRes
			s.c.Event("  simulated crash inside %s", kind)
		case kernel.HarnessError:
			panic(x)
		case kernel.ErrTapeOverrun:
			panic(x)
		default:
			if err, ok := x.(error); ok && errors.Is(err, simdb.ErrInjected) {
				out = dbErrRes
				s.c.Event("  injected I/O error surfaced from %s", kind)
				return
			}
			if str, ok := x.(string); ok && s.armed != "" && strings.Contains(str, simdb.ErrInjected.Error()) {
				out = dbErrRes
				s.c.Event("  injected I/O error surfaced from %s", kind)
				return
			}
			if s.armed != "" && strings.Contains(fmt.Sprint(x), simdb.ErrInjected.Error()) {
				out = dbErrRes
				s.c.Event("  injected I/O error surfaced from %s", kind)
				return
			}
			out = failedRes
			s.fail("store-panic", "%s panicked although the model says the call is legal: %v\n%s", kind, x, debug.Stack())
		}
	}()
	f()
	return okRes
}

func (s *sim) afterOOG() {
	if s.inTx {
		s.txOOG = true
	}
}

// armGas decides the gas context of the next store call.
func (s *sim) armGas() (*types.GasContext, string) {
	if s.inTx {
		return s.gctx, "tx"
	}
	switch s.c.Intn(5) {
	case 0:
		return nil, "none"
	case 1:
		s.gctx.Meter = types.NewInfiniteGasMeter()
		return s.gctx, "inf"
	case 2:
		lim := int64(s.c.Intn(2*s.unit + 1))
		s.gctx.Meter = types.NewPassthroughGasMeter(types.NewInfiniteGasMeter(), lim)
		return s.gctx, fmt.Sprintf("pt%d", lim)
	}
	lim := int64(s.c.Intn(2*s.unit + 1))
	s.gctx.Meter = types.NewGasMeter(lim)
	return s.gctx, fmt.Sprintf("lim%d", lim)
}

func (s *sim) drawGasCfg() types.GasConfig {
	c := s.c
	if c.Intn(8) == 7 {
		return types.DefaultGasConfig()
	}
	small := func() int64 { return []int64{1, 0, 2, 3, 5, 9}[c.Intn(6)] }
	pb := func() int64 { return []int64{1, 0, 2}[c.Intn(3)] }
	g := types.GasConfig{
		HasCost: small(), DeleteCost: small(), ReadCostFlat: small(), ReadCostPerByte: pb(),
		WriteCostFlat: small(), WriteCostPerByte: pb(), IterNextCostFlat: small(),
	}
	switch c.Intn(6) {
	case 1:
		g.MinGetReadDepth100, g.MinSetReadDepth100, g.MinWriteDepth100 = 300, 200, 250
	case 2:
		g.FixedGetReadDepth100, g.FixedSetReadDepth100, g.FixedWriteDepth100 = 150, 50, 400
	}
	return g
}

// ---- keys, values, bounds --------------------------------------------------

var alphabet = []byte{'a', 0x00, 0xff, 'b', 0x01, 0xfe}

func (s *sim) drawBytes(n int) []byte {
	b := make([]byte, n)
	for i := range b {
		b[i] = alphabet[s.c.Intn(len(alphabet))]
	}
	return b
}

func (s *sim) genPool() {
	n := 4 + s.c.Intn(20)
	for i := 0; i < n; i++ {
		s.pool = append(s.pool, s.drawBytes(1+s.c.Intn(3)))
	}
}

func (s *sim) pickKey(l *layer) []byte {
	c := s.c
	var k []byte
	switch c.Intn(12) {
	case 1:
		k = []byte{} // the key equal to the prefix itself
	case 2:
		k = []byte{0x00}
	case 3:
		k = []byte{0xff}
	case 4:
		k = append(cp(s.pool[c.Intn(len(s.pool))]), 0x00)
	case 5: // a key currently visible at l
		ks := s.viewKeys(l)
		if len(ks) > 0 {
			k = []byte(ks[c.Intn(len(ks))][len(l.abs):])
		} else {
			k = cp(s.pool[c.Intn(len(s.pool))])
		}
	default:
		k = cp(s.pool[c.Intn(len(s.pool))])
	}
	if len(l.abs)+len(k) == 0 {
		k = []byte{0x00} // base stores reject the empty key
	}
	if len(k) == 0 {
		s.r.Probe("key.equals_prefix")
	}
	return k
}

func (s *sim) newVal() []byte {
	s.valCtr++
	c := s.c
	switch c.Intn(16) {
	case 1:
		return []byte{}
	case 2, 3, 4:
		return []byte(fmt.Sprintf("v%d%s", s.valCtr, strings.Repeat(".", c.Intn(24))))
	}
	return []byte(fmt.Sprintf("v%d", s.valCtr))
}

func (s *sim) pickBound(l *layer) []byte {
	c := s.c
	switch c.Intn(12) {
	case 0, 1, 2:
		return nil
	case 3:
		return []byte{}
	case 4:
		return append(cp(s.pool[c.Intn(len(s.pool))]), 0x00)
	case 5, 6:
		ks := s.viewKeys(l)
		if len(ks) > 0 {
			return []byte(ks[c.Intn(len(ks))][len(l.abs):])
		}
		return nil
	case 7:
		return [][]byte{{0xff}, {0xff, 0xff}, {0x00}, {0x00, 0x00}}[c.Intn(4)]
	case 8:
		return types.PrefixEndBytes(s.pool[c.Intn(len(s.pool))])
	}
	return cp(s.pool[c.Intn(len(s.pool))])
}

// ---- layer picking ---------------------------------------------------------

func (s *sim) pickCol() *column { return s.cols[s.c.Intn(len(s.cols))] }

func (s *sim) pickLayer() *layer {
	col := s.pickCol()
	if s.c.Bool() {
		return col.top()
	}
	return col.stack[s.c.Intn(len(col.stack))]
}

func (s *sim) pickWritable() *layer {
	col := s.pickCol()
	var w []*layer
	for i := len(col.stack) - 1; i >= 0; i-- {
		w = append(w, col.stack[i])
		if col.stack[i].kind != kPrefix {
			break
		}
	}
	return w[s.c.Intn(len(w))]
}

// pickCacheAboveFloor returns a cache layer structural ops may touch.
func (s *sim) pickCacheAboveFloor(want func(*layer) bool) *layer {
	col := s.pickCol()
	var cs []*layer
	for i := len(col.stack) - 1; i > col.floor && i >= 1; i-- {
		l := col.stack[i]
		if l.kind != kCache {
			continue
		}
		ok := true
		for _, sib := range l.lvl.layers {
			if sib.index() <= sib.col.floor {
				ok = false
			}
		}
		if ok && (want == nil || want(l)) {
			cs = append(cs, l)
		}
	}
	if len(cs) == 0 {
		return nil
	}
	return cs[s.c.Intn(len(cs))]
}

// ---- iterators -------------------------------------------------------------

type chainRange struct {
	l          *layer
	start, end []byte
}

// chain translates an iteration range on l into the ranges every layer below
// receives (mirrors prefix.Store.Iterator).
func chain(l *layer, start, end []byte) []chainRange {
	var out []chainRange
	for x := l; x != nil; x = x.parent {
		out = append(out, chainRange{x, start, end})
		if x.kind == kPrefix {
			ns := append(cp(x.pfx), start...)
			if ns == nil {
				ns = []byte{}
			}
			var ne []byte
			if end == nil {
				ne = types.PrefixEndBytes(x.pfx)
			} else {
				ne = append(cp(x.pfx), end...)
				if ne == nil {
					ne = []byte{}
				}
			}
			start, end = ns, ne
		}
	}
	return out
}

// noteIterator updates the sortedCache/unsortedCache model of every cache
// layer an iterator passes through and records which merge cases the
// iteration will meet.
func (s *sim) noteIterator(l *layer, start, end []byte, asc bool) {
	for _, cr := range chain(l, start, end) {
		c := cr.l
		switch c.kind {
		case kPrefix:
			if cr.end == nil && types.PrefixEndBytes(c.pfx) == nil && len(c.pfx) > 0 {
				s.r.Probe("prefix.end_unbounded_all_ff_prefix")
			}
			if len(c.pfx) == 0 {
				s.r.Probe("prefix.empty_prefix_iterated")
			}
			// keys just outside the prefix range in the parent: the bounds matter
			before, after := false, false
			for _, k := range s.viewKeys(c.parent) {
				if strings.HasPrefix(k, c.abs) {
					continue
				}
				if k < c.abs {
					before = true
				} else {
					after = true
				}
			}
			if before {
				s.r.Probe("prefix.parent_has_key_before_prefix_range")
			}
			if after {
				s.r.Probe("prefix.parent_has_key_after_prefix_range")
			}
			continue
		case kBase:
			continue
		}
		// cache layer
		inRange := func(abs string) bool {
			return strings.HasPrefix(abs, c.abs) && inDomain([]byte(abs[len(c.abs):]), cr.start, cr.end)
		}
		for _, abs := range kernel.SortedKeys(c.unsorted) {
			if !inRange(abs) {
				continue
			}
			if c.iterBuilt {
				if c.sorted[abs] {
					s.r.Probe("iter.dirty_after_iterator_built.replaces_sorted_item")
				} else {
					s.r.Probe("iter.dirty_after_iterator_built.new_item")
				}
			}
			c.sorted[abs] = true
			delete(c.unsorted, abs)
		}
		c.iterBuilt = true
		// merge cases
		var pkeys []string
		for _, k := range s.viewKeys(c.parent) {
			if inRange(k) {
				pkeys = append(pkeys, k)
			}
		}
		pset := map[string]bool{}
		for _, k := range pkeys {
			pset[k] = true
		}
		first, last := "", ""
		if len(pkeys) > 0 {
			first, last = pkeys[0], pkeys[len(pkeys)-1]
			if !asc {
				first, last = last, first
			}
		}
		ndel, nset, run, maxrun := 0, 0, 0, 0
		for _, abs := range sortedOv(c.ov) {
			if !inRange(abs) {
				continue
			}
			e := c.ov[abs]
			if !e.del {
				run = 0
				nset++
				if pset[abs] {
					s.r.Probe("merge.set_shadows_parent_key")
				} else {
					s.r.Probe("merge.cache_only_key")
				}
				continue
			}
			run++
			if run > maxrun {
				maxrun = run
			}
			if !pset[abs] {
				s.r.Probe("merge.delete_without_parent_key")
				continue
			}
			ndel++
			s.r.Probe("merge.delete_shadows_parent_key")
			if abs == first {
				s.r.Probe("merge.delete_shadows_first_parent_key_of_range")
			}
			if abs == last {
				s.r.Probe("merge.delete_shadows_last_parent_key_of_range")
			}
			if cr.start != nil && abs == c.abs+string(cr.start) {
				s.r.Probe("merge.delete_shadows_parent_key_equal_to_start_bound")
			}
		}
		if maxrun >= 2 {
			s.r.Probe("merge.consecutive_deletes")
		}
		if len(pkeys) > 0 && ndel == len(pkeys) && nset == 0 {
			s.r.Probe("merge.every_parent_key_deleted")
		}
		if cr.end != nil {
			if e, ok := c.ov[c.abs+string(cr.end)]; ok && e.del {
				if _, ok := s.view(c.parent, c.abs+string(cr.end)); ok {
					s.r.Probe("merge.delete_of_parent_key_equal_to_end_bound")
				}
			}
		}
	}
}

func (s *sim) noteRange(l *layer, start, end []byte) {
	switch {
	case start == nil && end == nil:
		s.r.Probe("range.nil_nil")
	case start != nil && end != nil && bytes.Equal(start, end):
		s.r.Probe("range.start_eq_end")
	case start != nil && end != nil && bytes.Compare(start, end) > 0:
		s.r.Probe("range.start_gt_end")
	}
	if start != nil && len(start) == 0 {
		s.r.Probe("range.empty_nonnil_start")
	}
	if end != nil && len(end) == 0 {
		s.r.Probe("range.empty_nonnil_end")
	}
	if start != nil {
		if _, ok := s.view(l, l.abs+string(start)); ok {
			s.r.Probe("range.start_is_existing_key")
		}
	}
	if end != nil {
		if _, ok := s.view(l, l.abs+string(end)); ok {
			s.r.Probe("range.end_is_existing_key")
		}
	}
}

// openIter creates an iterator on l and the expectation it will be held to.
func (s *sim) openIter(l *layer, g *types.GasContext, start, end []byte, asc bool, kind string) (*heldIter, outcome) {
	exp := s.modelRange(l, start, end, asc)
	s.noteIterator(l, start, end, asc)
	var it types.Iterator
	out := s.call(kind, func() {
		if asc {
			it = l.st.Iterator(g, start, end)
		} else {
			it = l.st.ReverseIterator(g, start, end)
		}
	})
	if out != okRes {
		return nil, out
	}
	h := &heldIter{id: s.id(), l: l, it: it, start: start, end: end, asc: asc, exp: exp,
		since: len(l.col.wlog), limit: len(exp) + 4}
	return h, okRes
}

func (h *heldIter) touched() map[string]bool {
	col := h.l.col
	if h.since >= len(col.wlog) {
		return nil
	}
	t := map[string]bool{}
	for _, abs := range col.wlog[h.since:] {
		if strings.HasPrefix(abs, h.l.abs) {
			t[abs[len(h.l.abs):]] = true
		}
	}
	return t
}

func (s *sim) dropIter(h *heldIter) {
	for i, x := range s.open {
		if x == h {
			s.open = append(s.open[:i], s.open[i+1:]...)
			break
		}
	}
}

func (s *sim) closeIter(h *heldIter) {
	s.dropIter(h)
	var err error
	if s.call("iter_close", func() { err = h.it.Close() }) == okRes && err != nil {
		s.fail("iterator-close-error", "Close of iterator on %s: %v", h.l, err)
	}
}

func (s *sim) closeIters(col *column, only *layer) {
	var hs []*heldIter
	for _, h := range s.open {
		if h.l.col == col && (only == nil || h.l == only) {
			hs = append(hs, h)
		}
	}
	for _, h := range hs {
		s.closeIter(h)
	}
}

// stepIter checks the current position of h against the expectation and
// advances it. It returns false once the iterator is finished.
func (s *sim) stepIter(h *heldIter) bool {
	var valid bool
	var k, v []byte
	if s.call("iter_read", func() {
		valid = h.it.Valid()
		if valid {
			k, v = h.it.Key(), h.it.Value()
		}
	}) != okRes {
		s.dropIter(h)
		return false
	}
	t := h.touched()
	what := func() string {
		return fmt.Sprintf("%s iterator on %s [%x,%x) (stack %s)%s", map[bool]string{true: "ascending", false: "descending"}[h.asc],
			h.l, h.start, h.end, h.l.col.describe(), h.strictNote)
	}
	if !valid {
		for _, e := range h.exp {
			if !t[string(e.k)] {
				s.fail("iterator-ended-early", "%s ended after %d keys; the model still has key %x (=%q)", what(), h.yielded, e.k, e.v)
				break
			}
		}
		var err error
		if s.call("iter_error", func() { err = h.it.Error() }) == okRes && err != nil {
			s.fail("iterator-error", "%s: Error()=%v", what(), err)
		}
		s.closeIter(h)
		return false
	}
	h.yielded++
	if h.yielded > h.limit+len(t) {
		s.fail("iterator-runaway", "%s yielded %d keys, the model has %d", what(), h.yielded, h.limit-4)
		s.closeIter(h)
		return false
	}
	bad := false
	if h.hasLast && cmpDir(k, h.last, h.asc) <= 0 {
		s.fail("iterator-order", "%s yielded %x after %x", what(), k, h.last)
		bad = true
	}
	if !bad && !inDomain(k, h.start, h.end) {
		s.fail("iterator-out-of-range", "%s yielded %x which is outside the range", what(), k)
		bad = true
	}
	for !bad && len(h.exp) > 0 && cmpDir(h.exp[0].k, k, h.asc) < 0 {
		if !t[string(h.exp[0].k)] {
			s.fail("iterator-skipped-key", "%s yielded %x but the model's next key is %x (=%q)", what(), k, h.exp[0].k, h.exp[0].v)
			bad = true
		}
		h.exp = h.exp[1:]
	}
	if !bad {
		if len(h.exp) > 0 && bytes.Equal(h.exp[0].k, k) {
			if !t[string(k)] && (v == nil || !bytes.Equal(v, h.exp[0].v)) {
				s.fail("iterator-value", "%s at key %x: value %q (nil=%v), model %q", what(), k, v, v == nil, h.exp[0].v)
				bad = true
			}
			h.exp = h.exp[1:]
		} else if !t[string(k)] {
			nxt := "nothing"
			if len(h.exp) > 0 {
				nxt = fmt.Sprintf("%x", h.exp[0].k)
			}
			s.fail("iterator-unexpected-key", "%s yielded key %x (=%q) which the model does not have there (model's next: %s)", what(), k, v, nxt)
			bad = true
		} else {
			s.r.Probe("iter.held.saw_key_written_after_creation")
		}
	}
	if bad {
		s.closeIter(h)
		return false
	}
	h.last, h.hasLast = cp(k), true
	switch s.call("iter_next", func() { h.it.Next() }) {
	case okRes:
		return true
	case oogRes:
		s.closeIter(h)
		s.afterOOG()
		return false
	default:
		s.dropIter(h)
		return false
	}
}

// ---- verification of every layer against the model ---------------------------

func (s *sim) verifyLayer(l *layer) {
	if s.stop {
		return
	}
	col := l.col
	if col.iterOK() {
		asc := s.c.Intn(2) == 0
		h, out := s.openIter(l, nil, nil, nil, asc, "verify_iter_open")
		if out != okRes {
			if out != failedRes {
				kernel.Harnessf("verification iterator: outcome %d", out)
			}
			return
		}
		h.strictNote = " [post-op comparison of the whole layer]"
		for s.stepIter(h) {
		}
		if s.stop {
			return
		}
	} else {
		s.r.Probe("collecting.iteration_not_demanded_while_pending")
		for _, abs := range s.viewKeysAll(l) {
			s.checkGet(l, []byte(abs[len(l.abs):]), nil, s.c.Bool())
			if s.stop {
				return
			}
		}
	}
	for i, n := 0, s.c.Intn(3); i < n && !s.stop; i++ {
		s.checkGet(l, s.pickKey(l), nil, s.c.Bool())
	}
	if s.stop {
		return
	}
	if l.kind == kCache {
		var has bool
		if s.call("has_checkpoint", func() { has = l.st.(types.Checkpointable).HasCheckpoint() }) == okRes && has != (l.ckpt != nil) {
			s.fail("has-checkpoint", "%s: HasCheckpoint()=%v, model %v", l, has, l.ckpt != nil)
		}
	}
	if l.kind == kBase && col.kind != colBptree {
		keys, vals := col.disk.Dump()
		ok := len(keys) == len(col.base)
		for i := 0; ok && i < len(keys); i++ {
			mv, has := col.base[keys[i]]
			ok = has && bytes.Equal(mv, vals[i])
		}
		if !ok {
			s.fail("base-physical-content", "column %d (%s): the simulated disk holds %d keys %.200q, the model of the base holds %d keys %.200q",
				col.idx, colNames[col.kind], len(keys), keys, len(col.base), kernel.SortedKeys(col.base))
		}
	}
}

// viewKeysAll: every absolute key any layer below l knows about (present or not).
func (s *sim) viewKeysAll(l *layer) []string {
	cand := map[string]bool{}
	for x := l; x != nil; x = x.parent {
		for k := range x.ov {
			cand[k] = true
		}
		if x.kind == kBase {
			for k := range x.col.pend {
				cand[k] = true
			}
			for k := range x.col.base {
				cand[k] = true
			}
		}
	}
	var out []string
	for k := range cand {
		if strings.HasPrefix(k, l.abs) && len(k) > 0 {
			out = append(out, k)
		}
	}
	sort.Strings(out)
	return out
}

func (s *sim) checkGet(l *layer, k []byte, g *types.GasContext, has bool) outcome {
	abs := l.abs + string(k)
	mv, ok := s.view(l, abs)
	var got []byte
	var gh bool
	kind := "get"
	if has {
		kind = "has"
	}
	out := s.call(kind, func() {
		if has {
			gh = l.st.Has(g, k)
		} else {
			got = l.st.Get(g, k)
		}
	})
	if out != okRes {
		return out
	}
	// A value that is present, empty and still waiting in the BatchCollector of a
	// CollectingDB base gets its own oracle id so that it can be told apart
	// from every other read mismatch.
	oracleFor := func(def string, absent bool) string {
		if e, pok := l.col.pend[abs]; l.col.kind == colCollecting && pok && !e.del && len(e.val) == 0 && ok && len(mv) == 0 && absent {
			return "collecting-pending-empty-value-reads-absent"
		}
		return def
	}
	if has {
		if gh != ok {
			s.fail(oracleFor("has", !gh), "Has(%x) on %s = %v, model %v (stack %s)", k, l, gh, ok, l.col.describe())
		}
		return out
	}
	if (ok && (got == nil || !bytes.Equal(got, mv))) || (!ok && got != nil) {
		s.fail(oracleFor("get", got == nil), "Get(%x) on %s = %q (nil=%v), model %q present=%v (stack %s)", k, l, got, got == nil, mv, ok, l.col.describe())
	}
	return out
}

func (s *sim) verifyCol(col *column) {
	for _, l := range col.stack {
		s.verifyLayer(l)
	}
}

func (s *sim) verifyAll() {
	for _, col := range s.cols {
		s.verifyCol(col)
	}
}

// verify runs after every operation; how much it reads is a per-run choice so
// that caches are not always warmed and sorted the same way.
func (s *sim) verify(col *column) {
	if s.stop {
		return
	}
	switch s.vmode {
	case 0:
		s.verifyAll()
	case 1:
		s.verifyCol(col)
	case 2:
		if s.c.Intn(3) == 0 {
			s.verifyAll()
		}
	default:
		s.verifyLayer(col.stack[s.c.Intn(len(col.stack))])
	}
}

// ---- data operations ---------------------------------------------------------

func (s *sim) opGet(has bool) {
	l := s.pickLayer()
	k := s.pickKey(l)
	g, gd := s.armGas()
	s.c.Event("%s %x on %s gas=%s", map[bool]string{false: "get", true: "has"}[has], k, l, gd)
	if s.checkGet(l, k, g, has) == oogRes {
		s.afterOOG()
	}
	s.verify(l.col)
}

func (s *sim) opSet(del bool) {
	l := s.pickWritable()
	k := s.pickKey(l)
	g, gd := s.armGas()
	t := recv(l)
	abs := l.abs + string(k)
	if t.kind == kBase {
		s.closeIters(l.col, nil) // no iterator may exist over a non-cache store that is written
	} else if len(s.open) > 0 {
		s.r.Probe("iter.held.across_set_or_delete")
	}
	_, had := s.view(l, abs)
	if del {
		s.c.Event("delete %x on %s gas=%s", k, l, gd)
		switch s.call("delete", func() { l.st.Delete(g, k) }) {
		case okRes:
			s.modelMutate(t, abs, ent{del: true})
		case oogRes:
			var still bool
			if e, pok := l.col.pend[abs]; had && l.col.kind == colCollecting && pok && !e.del && len(e.val) == 0 {
				// the read-back below cannot tell "delete applied" from the collector
				// answering nil for a pending empty value: checkGet classifies it
				s.checkGet(l, k, nil, false)
				if s.stop {
					return
				}
			}
			if s.call("has", func() { still = l.st.Has(nil, k) }) == okRes {
				if had && !still {
					s.r.Probe("oog.delete.had_taken_effect")
					s.modelMutate(t, abs, ent{del: true})
				}
			}
			t.col.wlog = append(t.col.wlog, abs)
			s.afterOOG()
		}
	} else {
		v := s.newVal()
		s.c.Event("set %x=%q on %s gas=%s", k, v, l, gd)
		switch s.call("set", func() { l.st.Set(g, k, v) }) {
		case okRes:
			s.modelMutate(t, abs, ent{val: v})
		case oogRes:
			var got []byte
			if s.call("get", func() { got = l.st.Get(nil, k) }) == okRes {
				if got != nil && bytes.Equal(got, v) {
					s.r.Probe("oog.set.had_taken_effect")
					s.modelMutate(t, abs, ent{val: v})
				}
			}
			t.col.wlog = append(t.col.wlog, abs)
			s.afterOOG()
		}
	}
	s.verify(l.col)
}

func (s *sim) opIter() {
	l := s.pickLayer()
	if !l.col.iterOK() {
		return
	}
	start, end := s.pickBound(l), s.pickBound(l)
	if s.c.Intn(10) == 9 && start != nil {
		end = cp(start)
	}
	asc := s.c.Intn(2) == 0
	g, gd := s.armGas()
	s.noteRange(l, start, end)
	s.c.Event("iterate %s [%x,%x) nilstart=%v nilend=%v asc=%v gas=%s", l, start, end, start == nil, end == nil, asc, gd)
	h, out := s.openIter(l, g, start, end, asc, "iter_open")
	if out == oogRes {
		s.afterOOG()
	}
	if h == nil {
		s.verify(l.col)
		return
	}
	n := len(h.exp) + 2
	if s.c.Intn(5) < 2 {
		n = s.c.Intn(len(h.exp) + 2)
	}
	s.open = append(s.open, h)
	alive := true
	for i := 0; i < n && alive; i++ {
		alive = s.stepIter(h)
	}
	s.c.Event("  consumed %d keys, finished=%v", h.yielded, !alive)
	if alive {
		if len(s.open) <= 3 && s.c.Bool() {
			s.r.Probe("iter.held.kept_open")
		} else {
			s.closeIter(h)
		}
	}
	s.verify(l.col)
}

func (s *sim) opAdvanceHeld() {
	if len(s.open) == 0 {
		return
	}
	h := s.open[s.c.Intn(len(s.open))]
	n := 1 + s.c.Intn(4)
	if !s.inTx { // the held iterator charges whatever meter its context carries now
		s.armGas()
	}
	s.c.Event("advance held iterator #%d on %s by up to %d", h.id, h.l, n)
	if len(h.touched()) > 0 {
		s.r.Probe("iter.held.advanced_after_write_in_its_domain")
	}
	alive := true
	for i := 0; i < n && alive; i++ {
		alive = s.stepIter(h)
	}
	if alive && s.c.Intn(4) == 0 {
		s.closeIter(h)
	}
}

// ---- structural operations -----------------------------------------------------

func (s *sim) newCacheLayer(parent *layer, st types.Store, how string) *layer {
	return &layer{id: s.id(), kind: kCache, col: parent.col, st: st, parent: parent, abs: parent.abs, how: how,
		ov: map[string]ent{}, unsorted: map[string]bool{}, sorted: map[string]bool{}}
}

func (s *sim) opPushCache() *level {
	col := s.pickCol()
	if len(col.stack) > maxLayers {
		return nil
	}
	p := col.top()
	var st types.Store
	how := "cache.New"
	if s.c.Bool() {
		how = "CacheWrap"
		st = p.st.CacheWrap()
	} else {
		st = cache.New(p.st)
	}
	l := s.newCacheLayer(p, st, how)
	l.lvl = &level{id: s.id(), layers: []*layer{l}}
	col.stack = append(col.stack, l)
	s.c.Event("push %s on column %d", l, col.idx)
	return l.lvl
}

func (s *sim) opPushPrefix() {
	col := s.pickCol()
	if len(col.stack) > maxLayers {
		return
	}
	p := col.top()
	var pfx []byte
	switch s.c.Intn(8) {
	case 1:
		pfx = []byte{0xff}
	case 2:
		pfx = []byte{}
	case 3:
		pfx = nil
	case 4:
		pfx = []byte{0xff, 0xff}
	case 5:
		pfx = s.drawBytes(2)
	default:
		pfx = s.drawBytes(1)
	}
	if len(p.abs)+len(pfx) > 6 {
		return
	}
	l := &layer{id: s.id(), kind: kPrefix, col: col, st: prefix.New(p.st, pfx), parent: p, abs: p.abs + string(pfx), pfx: pfx}
	col.stack = append(col.stack, l)
	s.c.Event("push %s on column %d", l, col.idx)
}

func (s *sim) opPushMulti() *level {
	for _, col := range s.cols {
		if len(col.stack) > maxLayers {
			return nil
		}
	}
	// MultiCacheWrap of the cachemulti store whose sub-stores are the current tops, else a new one
	var from *level
	for i, col := range s.cols {
		lv := col.top().lvl
		if lv == nil || !lv.multi || (i > 0 && lv != from) {
			from = nil
			break
		}
		from = lv
	}
	lv := &level{id: s.id(), multi: true}
	how := "cachemulti.New"
	if from != nil && s.c.Bool() {
		how = "MultiCacheWrap"
		lv.cms = from.cms.MultiCacheWrap().(cachemulti.Store)
	} else {
		stores := map[types.StoreKey]types.Store{}
		names := map[string]types.StoreKey{}
		for _, col := range s.cols {
			stores[col.key] = col.top().st
			names[col.key.Name()] = col.key
		}
		lv.cms = cachemulti.New(stores, names)
	}
	for _, col := range s.cols {
		l := s.newCacheLayer(col.top(), lv.cms.GetStore(col.key), how)
		l.lvl = lv
		lv.layers = append(lv.layers, l)
		col.stack = append(col.stack, l)
	}
	s.r.Probe("cachemulti.levels")
	s.c.Event("push cachemulti level #%d (%s) over %d column(s)", lv.id, how, len(s.cols))
	return lv
}

// truncate discards every layer of col at index >= idx (and, for cachemulti
// levels, their siblings in the other columns).
func (s *sim) truncate(col *column, idx int) {
	for len(col.stack) > idx && len(col.stack) > 1 {
		l := col.stack[len(col.stack)-1]
		col.stack = col.stack[:len(col.stack)-1]
		l.dead = true
		s.closeIters(col, l)
		if l.lvl != nil {
			for _, sib := range l.lvl.layers {
				if !sib.dead {
					s.truncate(sib.col, sib.index())
				}
			}
		}
	}
}

func (s *sim) opPop() {
	col := s.pickCol()
	i := len(col.stack) - 1
	if i < 1 || i <= col.floor {
		return
	}
	l := col.top()
	if l.lvl != nil {
		for _, sib := range l.lvl.layers {
			if sib.index() <= sib.col.floor {
				return
			}
		}
	}
	s.c.Event("discard %s (%d dirty entries)", l, len(l.ov))
	if len(l.ov) > 0 {
		s.r.Probe("discard.with_dirty_entries")
	}
	s.truncate(col, i)
	s.verify(col)
}

func (s *sim) disarm() {
	for k := range s.mach.FailAt {
		delete(s.mach.FailAt, k)
	}
	if !s.mach.Dead {
		s.mach.CrashAt = 0
	}
	s.armed = ""
}

func (s *sim) arm(nops int) {
	at := s.mach.Ops + 1 + uint64(s.c.Intn(nops))
	if s.c.Bool() {
		s.mach.FailAt[at] = true
		s.armed = "error"
	} else {
		s.mach.CrashAt = at
		s.armed = "crash"
	}
	s.c.Event("  armed db %s at physical op %d (next is %d)", s.armed, at, s.mach.Ops+1)
}

// adoptBase: after a write into a dbadapter base was interrupted by a DB fault,
// every key of the flushed set is either still old or already new on disk
// (all-or-nothing if the flush was one batch); nothing else may have changed.
func (s *sim) adoptBase(col *column, flush map[string]ent, atomic bool) {
	keys, vals := col.disk.Dump()
	real := map[string][]byte{}
	for i, k := range keys {
		real[k] = vals[i]
	}
	applied, kept := 0, 0
	for _, abs := range sortedOv(flush) {
		e := flush[abs]
		old, hadOld := col.base[abs]
		rv, hasReal := real[abs]
		isOld := hasReal == hadOld && (!hasReal || bytes.Equal(rv, old))
		isNew := hasReal == !e.del && (!hasReal || bytes.Equal(rv, e.val))
		switch {
		case isOld && isNew:
		case isOld:
			kept++
		case isNew:
			applied++
			if e.del {
				delete(col.base, abs)
			} else {
				col.base[abs] = e.val
			}
		default:
			s.fail("torn-write", "after the interrupted write, base key %x holds %q (present=%v): neither the old value %q (present=%v) nor the flushed one %q (delete=%v)",
				abs, rv, hasReal, old, hadOld, e.val, e.del)
			return
		}
	}
	if atomic && applied > 0 && kept > 0 {
		s.fail("batch-write-not-atomic", "a failed batched Write left %d keys applied and %d not", applied, kept)
	}
	if applied > 0 && kept > 0 {
		s.r.Probe("dbfault.unbatched_write_partially_applied")
	}
	s.c.Event("  interrupted write: %d keys already on disk, %d not", applied, kept)
}

// writeLevel is Write / MultiWrite (checkpoint=false) or WriteCheckpoint.
func (s *sim) writeLevel(lv *level, checkpoint bool, allowFault bool) {
	faultOps := 0
	for _, l := range lv.layers {
		if checkpoint {
			s.truncate(l.col, l.index()+1) // everything built on top of the rolled-back state is dropped
		}
		if recv(l.parent).kind == kBase {
			s.closeIters(l.col, nil)
			if l.col.kind == colDB {
				n := 1
				if l.parent.kind != kBase {
					src := l.ov
					if checkpoint {
						src = l.ckpt
					}
					n = len(src)
				}
				if len(lv.layers) > 1 && n > 1 {
					n = 1 // map order of cachemulti decides who writes second: only the first physical op is a deterministic target
				}
				if n > faultOps {
					faultOps = n
				}
			}
		} else if len(s.open) > 0 {
			s.r.Probe("iter.held.across_write_into_cache")
		}
	}
	flush := map[*layer]map[string]ent{}
	for _, l := range lv.layers {
		if checkpoint {
			flush[l] = copyOv(l.ckpt)
		} else {
			flush[l] = copyOv(l.ov)
		}
	}
	kind := "write"
	if checkpoint {
		kind = "write_checkpoint"
	}
	s.c.Event("%s level #%d (%s) multi=%v", kind, lv.id, lv.layers[0], lv.multi)
	if allowFault && faultOps > 0 && s.c.Intn(3) == 0 {
		s.arm(faultOps)
	}
	out := s.call(kind, func() {
		switch {
		case lv.multi && checkpoint:
			lv.cms.WriteCheckpoint()
		case lv.multi:
			lv.cms.MultiWrite()
		case checkpoint:
			lv.layers[0].st.(types.Checkpointable).WriteCheckpoint()
		default:
			lv.layers[0].st.Write()
		}
	})
	armed := s.armed
	s.disarm()
	switch out {
	case okRes:
		if armed != "" {
			s.r.Probe("dbfault.armed_but_not_reached")
		}
		for _, l := range lv.layers {
			if checkpoint {
				s.r.Probe("checkpoint.restored")
				if !sameOv(l.ov, l.ckpt) {
					s.r.Probe("checkpoint.restored_state_differs_from_live")
				}
				l.ov = l.ckpt
			}
			s.modelWrite(l)
		}
	case dbErrRes, crashRes:
		if armed == "" {
			kernel.Harnessf("db fault without arming")
		}
		if out == dbErrRes {
			s.r.Fault("db_write_error_in_" + kind)
		} else {
			s.r.Fault("db_crash_in_" + kind)
		}
		for _, l := range lv.layers {
			if l.col.kind == colDB && recv(l.parent).kind == kBase {
				s.adoptBase(l.col, flush[l], l.parent.kind == kBase)
			}
		}
		// a DB error inside Write is fatal in production (panic): the process is gone
		s.restartAll("db fault in " + kind)
		return
	case oogRes:
		kernel.Harnessf("out of gas inside %s, which takes no gas context", kind)
	}
	s.verifyAll()
}

func sameOv(a, b map[string]ent) bool {
	if len(a) != len(b) {
		return false
	}
	for k, x := range a {
		y, ok := b[k]
		if !ok || x.del != y.del || !bytes.Equal(x.val, y.val) {
			return false
		}
	}
	return true
}

func (s *sim) opWrite(fault bool) {
	l := s.pickCacheAboveFloor(nil)
	if l == nil {
		return
	}
	s.writeLevel(l.lvl, false, fault && !s.inTx)
}

func (s *sim) checkpointLevel(lv *level) {
	s.c.Event("checkpoint level #%d (%s)", lv.id, lv.layers[0])
	out := s.call("checkpoint", func() {
		if lv.multi {
			lv.cms.Checkpoint()
		} else {
			lv.layers[0].st.(types.Checkpointable).Checkpoint()
		}
	})
	if out != okRes {
		return
	}
	for _, l := range lv.layers {
		if l.ckpt != nil {
			s.r.Probe("checkpoint.replaced_older_checkpoint")
		}
		l.ckpt = copyOv(l.ov)
	}
	s.r.Probe("checkpoint.taken")
}

func (s *sim) opCheckpoint() {
	l := s.pickCacheAboveFloor(nil)
	if l == nil {
		return
	}
	s.checkpointLevel(l.lvl)
	s.verify(l.col)
}

func (s *sim) opWriteCheckpoint() {
	// cachemulti.WriteCheckpoint needs a checkpoint in every sub-store (a Flush of
	// one sub-store on its own drops that sub-store's checkpoint)
	l := s.pickCacheAboveFloor(func(l *layer) bool {
		for _, sib := range l.lvl.layers {
			if sib.ckpt == nil {
				return false
			}
		}
		return true
	})
	if l == nil {
		return
	}
	s.writeLevel(l.lvl, true, !s.inTx)
}

func (s *sim) opFlush() {
	l := s.pickCacheAboveFloor(nil)
	if l == nil {
		return
	}
	// Flush writes through every directly stacked cache below; all of them must be free
	var chainL []*layer
	for x := l; x.kind == kCache; x = x.parent {
		if x.index() <= x.col.floor {
			return
		}
		chainL = append(chainL, x)
	}
	last := chainL[len(chainL)-1]
	if recv(last.parent).kind == kBase {
		s.closeIters(l.col, nil)
	}
	s.c.Event("flush %s through %d cache layer(s)", l, len(chainL))
	if s.call("flush", func() { l.st.(types.Flusher).Flush() }) != okRes {
		return
	}
	for _, x := range chainL {
		s.modelWrite(x)
	}
	if len(chainL) > 1 {
		s.r.Probe("flush.through_several_caches")
	}
	s.verifyAll()
}

// ---- base store: commit, drain, restart ----------------------------------------

func (s *sim) openBase(col *column) {
	var st types.Store
	switch col.kind {
	case colDB:
		col.db = col.disk.Open()
		st = dbadapter.Store{DB: col.db}
	case colCollecting:
		col.db = col.disk.Open()
		col.coll = dbm.NewBatchCollector()
		col.pend = map[string]ent{}
		st = dbadapter.Store{DB: dbm.NewCollectingDB(col.db, col.coll)}
	case colBptree:
		col.db = col.disk.Open()
		cons := bpstore.StoreConstructor
		if s.c.Bool() {
			cons = bpstore.FastStoreConstructor
		}
		col.bst = cons(col.db, col.opts).(*bpstore.Store)
		if err := col.bst.LoadLatestVersion(); err != nil {
			s.fail("base-load", "bptree store LoadLatestVersion: %v", err)
			return
		}
		ver := col.bst.LastCommitID().Version
		switch {
		case ver == col.version:
		case col.inflight != nil && ver == col.version+1:
			col.version, col.committed = ver, col.inflight
			s.r.Probe("bptree.interrupted_commit_was_durable")
		default:
			s.fail("base-version", "bptree base reloaded at version %d, model %d (commit in flight: %v)", ver, col.version, col.inflight != nil)
			return
		}
		col.inflight = nil
		col.base = copyKV(col.committed)
		st = col.bst
	}
	col.stack = []*layer{{id: s.id(), kind: kBase, col: col, st: st}}
	col.floor = -1
}

// restartAll: the process died; only the disks survive. Every layer is rebuilt.
func (s *sim) restartAll(why string) {
	s.c.Event("process restart (%s)", why)
	for len(s.open) > 0 {
		s.dropIter(s.open[0])
	}
	for _, col := range s.cols {
		for _, l := range col.stack {
			l.dead = true
		}
		col.disk.Crash(col.disk.Unsynced()) // kill: everything written survives
	}
	s.mach.Reboot()
	s.inTx, s.txOOG = false, false
	for _, col := range s.cols {
		s.openBase(col)
		if s.stop {
			return
		}
	}
	s.r.Probe("restarts")
	s.verifyAll()
}

func (s *sim) opCommitOrDrain() {
	col := s.pickCol()
	if s.inTx {
		return
	}
	s.commitOrDrain(col, true)
}

func (s *sim) commitOrDrain(col *column, allowFault bool) {
	switch col.kind {
	case colBptree:
		if s.c.Bool() {
			s.truncate(col, 1)
		}
		s.closeIters(col, nil)
		s.c.Event("commit bptree base of column %d (version %d -> %d), %d layers stay", col.idx, col.version, col.version+1, len(col.stack)-1)
		col.inflight = copyKV(col.base)
		if allowFault && s.c.Intn(4) == 0 {
			s.arm(1 + s.c.Intn(3))
		}
		var cid types.CommitID
		out := s.call("commit", func() { cid = col.bst.Commit() })
		armed := s.armed
		s.disarm()
		switch out {
		case okRes:
			if armed != "" {
				s.r.Probe("dbfault.armed_but_not_reached")
			}
			if cid.Version != col.version+1 {
				s.fail("commit-version", "Commit returned version %d, expected %d", cid.Version, col.version+1)
				return
			}
			col.version++
			col.committed, col.inflight = col.inflight, nil
			s.r.Probe("bptree.commits")
			s.verifyAll()
		case dbErrRes, crashRes:
			s.r.Fault(map[outcome]string{dbErrRes: "db_write_error_in_commit", crashRes: "db_crash_in_commit"}[out])
			s.restartAll("db fault in bptree commit")
		}
	case colCollecting:
		if len(col.pend) == 0 {
			return
		}
		s.closeIters(col, nil)
		s.c.Event("drain collector of column %d (%d pending keys)", col.idx, len(col.pend))
		if allowFault && s.c.Intn(4) == 0 {
			s.arm(1)
		}
		flush := copyOv(col.pend)
		var err error
		out := s.call("drain", func() {
			b := col.db.NewBatch()
			defer b.Close()
			if err = col.coll.Drain(b); err != nil {
				return
			}
			err = b.WriteSync()
		})
		if out == okRes && err != nil {
			if !errors.Is(err, simdb.ErrInjected) || s.armed == "" {
				s.fail("drain-error", "draining the collector failed: %v", err)
				return
			}
			out = dbErrRes
		}
		s.disarm()
		switch out {
		case okRes:
			for _, abs := range sortedOv(col.pend) {
				if e := col.pend[abs]; e.del {
					delete(col.base, abs)
				} else {
					col.base[abs] = e.val
				}
			}
			col.pend = map[string]ent{}
			s.r.Probe("collecting.drains")
			s.verifyAll()
		case dbErrRes, crashRes:
			s.r.Fault(map[outcome]string{dbErrRes: "db_write_error_in_drain", crashRes: "db_crash_in_drain"}[out])
			s.adoptBase(col, flush, true)
			s.restartAll("db fault in collector drain")
		}
	}
}

func (s *sim) opRestart() {
	if s.inTx {
		return
	}
	s.r.Fault("kill_between_ops")
	for _, col := range s.cols {
		if col.kind == colCollecting && len(col.pend) > 0 {
			s.r.Probe("restart.lost_undrained_collector")
		}
		if col.kind == colBptree && !sameKV(col.base, col.committed) {
			s.r.Probe("restart.lost_uncommitted_tree_changes")
		}
	}
	s.restartAll("kill between operations")
}

func sameKV(a, b map[string][]byte) bool {
	if len(a) != len(b) {
		return false
	}
	for k, x := range a {
		y, ok := b[k]
		if !ok || !bytes.Equal(x, y) {
			return false
		}
	}
	return true
}

// ---- a whole transaction, as BaseApp.runTx drives the stores --------------------

func (s *sim) opTx() {
	if s.inTx {
		return
	}
	c := s.c
	mode := []string{"deliver", "deliver", "deliver", "check", "simulate", "deliver"}[c.Intn(6)]
	var lv *level
	if len(s.cols) > 1 || c.Bool() {
		lv = s.opPushMulti() // cacheTxContext: ms.MultiCacheWrap()
	} else {
		lv = s.opPushCache()
	}
	if lv == nil {
		return
	}
	for _, l := range lv.layers {
		l.col.floor = l.index()
	}
	nAnte, nMsg := c.Intn(4), c.Intn(12)
	var lim int64 = -1
	if c.Intn(6) != 5 {
		lim = int64(c.Intn((nAnte+nMsg+1)*s.unit + 1))
		if c.Bool() {
			s.gctx.Meter = types.NewGasMeter(lim)
		} else {
			s.gctx.Meter = types.NewPassthroughGasMeter(types.NewInfiniteGasMeter(), lim)
		}
	} else {
		s.gctx.Meter = types.NewInfiniteGasMeter()
	}
	s.inTx, s.txOOG = true, false
	s.r.Probe("tx." + mode)
	c.Event("tx begin mode=%s level #%d gas limit %d ante=%d msgs=%d", mode, lv.id, lim, nAnte, nMsg)
	alive := func() bool { return s.inTx && !s.stop } // a restart inside the tx ends it
	finish := func(how string) {
		if !alive() {
			return
		}
		c.Event("tx end: %s", how)
		s.r.Probe("tx.end." + how)
		for _, l := range lv.layers {
			if !l.dead {
				l.col.floor = -1
			}
		}
		for _, col := range s.cols {
			col.floor = -1
		}
		if !lv.layers[0].dead {
			s.truncate(lv.layers[0].col, lv.layers[0].index())
		}
		s.inTx, s.txOOG = false, false
		s.verifyAll()
	}
	// ante handler: a few plain reads and writes on the tx cache
	for i := 0; i < nAnte && alive() && !s.txOOG; i++ {
		switch c.Intn(4) {
		case 0:
			s.opGet(false)
		case 1:
			s.opSet(true)
		default:
			s.opSet(false)
		}
		s.r.Steps++
	}
	if !alive() {
		return
	}
	if s.txOOG {
		// runTx: the panic is recovered before any checkpoint exists; msCache is dropped unwritten
		finish("out_of_gas_in_ante_discarded")
		return
	}
	if c.Intn(8) == 7 {
		finish("ante_abort_discarded")
		return
	}
	if mode == "check" {
		s.writeLevel(lv, false, false)
		finish("checktx_ante_written")
		return
	}
	s.checkpointLevel(lv)
	for i := 0; i < nMsg && alive() && !s.txOOG; i++ {
		s.step(true)
		s.r.Steps++
	}
	if !alive() {
		return
	}
	hasCP := func() bool {
		var has bool
		s.call("has_checkpoint", func() {
			if lv.multi {
				has = lv.cms.HasCheckpoint()
			} else {
				has = lv.layers[0].st.(types.Checkpointable).HasCheckpoint()
			}
		})
		return has
	}
	switch {
	case s.txOOG:
		// deferred func of runTx: if mode == Deliver && cp.HasCheckpoint() { cp.WriteCheckpoint() }
		if mode == "deliver" {
			if !hasCP() {
				s.fail("has-checkpoint", "HasCheckpoint() is false in the out-of-gas recovery path although Checkpoint() was taken and nothing was written")
				return
			}
			s.r.Probe("checkpoint.restored_after_out_of_gas")
			s.writeLevel(lv, true, true)
			finish("out_of_gas_in_msgs_write_checkpoint")
		} else {
			finish("out_of_gas_in_simulate_discarded")
		}
	case mode == "simulate":
		finish("simulate_discarded")
	case c.Intn(3) != 0:
		for _, l := range lv.layers {
			s.truncate(l.col, l.index()+1)
		}
		s.writeLevel(lv, false, true)
		if alive() && hasCP() { // the deferred WriteCheckpoint must not fire after a successful MultiWrite
			s.fail("has-checkpoint", "HasCheckpoint() still true after MultiWrite: the deferred WriteCheckpoint of runTx would run")
			return
		}
		finish("msgs_ok_written")
	default:
		s.writeLevel(lv, true, true)
		if alive() && hasCP() {
			s.fail("has-checkpoint", "HasCheckpoint() still true after WriteCheckpoint")
			return
		}
		finish("msg_failed_write_checkpoint")
	}
}

// ---- one step ------------------------------------------------------------------

func (s *sim) step(inTx bool) {
	w := s.weights
	op := s.c.Weighted(w[:])
	if inTx && (op == 15 || op == 16 || op == 17 || op == 18) {
		op = 2
	}
	switch op {
	case 0:
		s.opGet(false)
	case 1:
		s.opGet(true)
	case 2:
		s.opSet(false)
	case 3:
		s.opSet(true)
	case 4:
		s.opIter()
	case 5:
		s.opAdvanceHeld()
	case 6:
		if len(s.open) > 0 {
			h := s.open[s.c.Intn(len(s.open))]
			s.c.Event("close held iterator #%d", h.id)
			s.closeIter(h)
		}
	case 7:
		s.opPushCache()
	case 8:
		s.opPushPrefix()
	case 9:
		s.opPushMulti()
	case 10:
		s.opPop()
	case 11:
		s.opWrite(false)
	case 12:
		s.opCheckpoint()
	case 13:
		s.opWriteCheckpoint()
	case 14:
		s.opFlush()
	case 15:
		s.opTx()
	case 16:
		s.opCommitOrDrain()
	case 17:
		s.opRestart()
	case 18:
		s.opWrite(true)
	}
}

// ---- one run -------------------------------------------------------------------

func run(c *kernel.Choices, p kernel.Params) *kernel.Result {
	s := &sim{c: c, r: kernel.NewResult(), prop: p.Property, tier: p.Tier, p: p}
	s.mach = simdb.NewMachine()
	s.genPool()
	cfg := s.drawGasCfg()
	s.gctx = &types.GasContext{Meter: types.NewInfiniteGasMeter(), Config: cfg}
	s.unit = int(cfg.ReadCostFlat + cfg.WriteCostFlat + cfg.DeleteCost + cfg.IterNextCostFlat + 6*(cfg.ReadCostPerByte+cfg.WriteCostPerByte) + 1)
	s.vmode = c.Weighted([]int{6, 2, 2, 1})

	ncol := 1
	if c.Intn(3) == 2 {
		ncol = 2
	}
	for i := 0; i < ncol; i++ {
		col := &column{idx: i, kind: c.Weighted([]int{3, 2, 1}), key: types.NewStoreKey(fmt.Sprintf("col%d", i)),
			base: map[string][]byte{}, committed: map[string][]byte{}, floor: -1}
		col.disk = simdb.NewDisk(fmt.Sprintf("disk%d", i), s.mach)
		if col.kind == colBptree {
			col.opts = types.StoreOptions{PruningOptions: []types.PruningOptions{types.PruneNothing, types.PruneEverything, types.NewPruningOptions(2, 0)}[c.Intn(3)]}
		}
		s.cols = append(s.cols, col)
		s.openBase(col)
	}
	c.Event("gas config %+v; %d column(s); pool %x", cfg, ncol, s.pool)
	// initial content of the base stores, including keys outside every prefix range
	for _, col := range s.cols {
		b := col.stack[0]
		n := c.Intn(16)
		for i := 0; i < n; i++ {
			k := s.drawBytes(1 + c.Intn(3))
			if c.Bool() {
				k = cp(s.pool[c.Intn(len(s.pool))])
			}
			v := s.newVal()
			if s.call("set", func() { b.st.Set(nil, k, v) }) != okRes {
				break
			}
			s.modelMutate(b, string(k), ent{val: v})
		}
		c.Event("column %d: base %s filled with %d writes", col.idx, colNames[col.kind], n)
		if col.kind != colDB && c.Bool() {
			s.commitOrDrain(col, false)
		}
	}
	s.writes = 0
	// initial stack: 1-4 layers in random order
	for i, n := 0, 1+c.Intn(4); i < n; i++ {
		switch c.Weighted([]int{3, 2, 1}) {
		case 0:
			s.opPushCache()
		case 1:
			s.opPushPrefix()
		default:
			s.opPushMulti()
		}
	}
	for _, col := range s.cols {
		c.Event("column %d stack: %s", col.idx, col.describe())
	}
	s.verifyAll()

	nops := 30 + c.Intn(120)
	if p.Tier == "thorough" {
		nops = 60 + c.Intn(400)
	}
	s.weights = [19]int{
		10 + c.Intn(10), // get
		3,               // has
		15 + c.Intn(20), // set
		5 + c.Intn(12),  // delete
		10 + c.Intn(12), // iter
		c.Intn(8),       // advance held
		c.Intn(3),       // close held
		2 + c.Intn(8),   // push cache
		c.Intn(6),       // push prefix
		c.Intn(3),       // push multi
		c.Intn(5),       // pop
		3 + c.Intn(6),   // write
		c.Intn(5),       // checkpoint
		c.Intn(5),       // write checkpoint
		c.Intn(3),       // flush
		c.Intn(8),       // tx
		c.Intn(5),       // commit / drain
		c.Intn(2),       // restart
		c.Intn(4),       // write with db fault
	}
	for i := 0; i < nops && !s.stop; i++ {
		s.step(false)
		s.r.Steps++
	}
	if !s.stop {
		for len(s.open) > 0 {
			s.closeIter(s.open[0])
		}
		s.verifyAll()
	}
	for _, k := range kernel.SortedKeys(s.mach.Counters) {
		s.r.Probes["db."+k] += s.mach.Counters[k]
	}
	for _, col := range s.cols {
		s.r.Probe("base." + colNames[col.kind])
		if len(col.stack)-1 >= 4 {
			s.r.Probe("stack.depth>=4")
		}
	}
	if len(s.cols) > 1 {
		s.r.Probe("columns.2")
	}
	nf := 0
	for _, k := range kernel.SortedKeys(s.r.Faults) {
		nf += s.r.Faults[k]
	}
	s.r.Nontrivial = nf > 0 && s.writes > 0
	var stacks []string
	for _, col := range s.cols {
		stacks = append(stacks, col.describe())
	}
	s.r.Sample = map[string]any{"first_events": c.Log[:min(len(c.Log), 25)], "events": c.Events(), "final_stacks": stacks, "writes": s.writes}
	return s.r
}
