package iavl

import (
	"os"
	"testing"

	"verif/sim/kernel"
)

func TestSim(t *testing.T) {
	if os.Getenv("VERIF_PROP") == "" {
		t.Skip("driven by /verif/check")
	}
	code := kernel.Main("iavl", map[string]kernel.Engine{
		"C30": runIavl,
	})
	if code != 0 {
		os.Exit(code)
	}
}
