// Engine iavl (property C30): the real tm2/pkg/iavl MutableTree / ImmutableTree
// / nodeDB / fast-node index / ics23 proofs / export+import (and reads through
// tm2/pkg/store/iavl) over the simulated disk, driven by one seeded history
// with close+reopen (different cache size, fast index on/off, flush threshold,
// sync), process death at every physical write of a SaveVersion (enumerated on
// clones of the disk), main-line death (kill and power loss) in SaveVersion and
// DeleteVersionsTo, power loss at quiescent points and injected write errors.
//
// Oracles: a versioned ordered-map model; an op journal that maps "which
// physical writes survived" to the exact logical state the reopened tree must
// be in (only for images that end on an operation boundary - they equal a
// shorter crash-free history plus a reopen; images cut inside a multi-write
// call are outside C30 and only counted, see rootCause); a never-faulted
// reference twin fed the same logical history (root hash is a function of the
// history); ics23 verification against the version's root.
package iavl

import (
	"bytes"
	"errors"
	"fmt"
	"math"
	"os"
	"sort"

	ics23 "github.com/cosmos/ics23/go"

	abci "github.com/gnolang/gno/tm2/pkg/bft/abci/types"
	dbm "github.com/gnolang/gno/tm2/pkg/db"
	iv "github.com/gnolang/gno/tm2/pkg/iavl"
	storeiavl "github.com/gnolang/gno/tm2/pkg/store/iavl"
	storetypes "github.com/gnolang/gno/tm2/pkg/store/types"

	"verif/sim/kernel"
	"verif/sim/simdb"
)

// ---- configuration ---------------------------------------------------------

type cfg struct {
	cache    int
	skipFast bool // gno.land production uses true
	flush    int  // FlushThreshold of the batch-with-flusher (production: 100000)
	sync     bool
}

// ---- model -----------------------------------------------------------------

type lop struct { // logical op of a working session
	del bool
	k   string
	v   []byte
}

// vinfo is one saved version (immutable once created).
type vinfo struct {
	m    map[string][]byte
	hash []byte
	ops  []lop // session that produced it from its predecessor
}

// tstate is one logical on-disk state (immutable once created): versions
// first..latest are retained; chain[v] describes version v for 1..latest
// (pruned ones included: the twin needs the whole history).
type tstate struct {
	first, latest int64
	chain         []*vinfo // chain[0] is the empty version 0
}

func (st *tstate) retained(v int64) bool {
	return st.latest > 0 && v >= st.first && v <= st.latest
}

func emptyState() *tstate {
	return &tstate{chain: []*vinfo{{m: map[string][]byte{}}}}
}

// span is one tree-level mutating operation in terms of applied physical ops:
// ops (from, to] belong to it. pre/post are the logical states around it.
type span struct {
	from, to  int
	kind      string // save | prune | upgrade | overwrite
	pre, post *tstate
}

// world is a disk plus the bookkeeping needed to say what survives a crash.
type world struct {
	mach    *simdb.Machine
	disk    *simdb.Disk
	applied int // physical ops applied to disk (not: dropped after the crash point, failed by injection)
	journal []span

	crashAt uint64 // the process dies when about to issue this physical op (0 = never)
	crashed bool

	failSyncOnly  uint64
	failCancelled bool

	// tainted: a crash image cut inside a multi-write SaveVersion was recovered
	// from; debris of the unfinished save stays on this disk for good.
	tainted bool
	// tornPrune: the same for a crash image cut inside a multi-write DeleteVersionsTo.
	tornPrune bool
	// staleFast: versions were deleted from the top (LoadVersionForOverwriting)
	// while the fast index was disabled although one exists on disk; its stamp
	// (a bare version number) cannot tell the re-saved versions from the old ones.
	staleFast bool
	everFast  bool
}

// The process "dies" at physical op crashAt: that op and every later one is
// dropped (simdb's Dead flag), the code under test runs on as a zombie whose
// writes go nowhere, and the caller discards it. The disk image is exactly the
// one a process death at that op leaves. (A sentinel panic cannot be used:
// iavl's BatchWithFlusher turns any panic or error inside a mid-commit flush
// into "fatal error: sync: unlock of unlocked mutex".)
func (w *world) hook() {
	w.mach.OnOp = func(string, string, int) { w.applied++ }
	w.mach.Yield = func(op string) {
		// an injected write error must hit SaveVersion's final commit write only (see
		// the note above): with Sync on, the commit is the one WriteSync
		if w.failSyncOnly != 0 && w.mach.Ops+1 == w.failSyncOnly && op == "iavl.Batch.Write" {
			delete(w.mach.FailAt, w.failSyncOnly)
			w.failSyncOnly = 0
			w.failCancelled = true
		}
		if w.crashAt == 0 || w.crashed {
			return
		}
		switch op {
		case "iavl.Set", "iavl.SetSync", "iavl.Delete", "iavl.DeleteSync", "iavl.Batch.Write", "iavl.Batch.WriteSync":
			if w.crashAt == 0 {
				break
			}
			if w.mach.Ops+1 >= w.crashAt {
				w.mach.Dead = true
				w.crashed = true
			}
		}
	}
}

func newWorld() *world {
	w := &world{mach: simdb.NewMachine()}
	w.disk = simdb.NewDisk("iavl", w.mach)
	w.hook()
	return w
}

func (w *world) clone() *world {
	n := &world{mach: simdb.NewMachine(), applied: w.applied, journal: append([]span(nil), w.journal...),
		tainted: w.tainted, tornPrune: w.tornPrune, staleFast: w.staleFast, everFast: w.everFast}
	n.disk = w.disk.Clone(n.mach)
	n.hook()
	return n
}

// crashIn arms the crash at the k-th physical write from now and runs f. It
// reports whether the crash point was reached. Whatever the zombie does after
// its death (errors, panics) is ignored.
func (w *world) crashIn(k int, f func()) (crashed bool) {
	w.crashAt = w.mach.Ops + uint64(k)
	w.crashed = false
	defer func() {
		crashed = w.crashed
		w.crashAt = 0
		if r := recover(); r != nil && !crashed {
			panic(r)
		}
	}()
	f()
	return
}

// resolve maps "the first `surviving` applied ops are on disk" to the logical
// state; partial != nil when the cut falls strictly inside an operation.
func (w *world) resolve(surviving int) (st *tstate, partial *span) {
	st = emptyState()
	for i := range w.journal {
		sp := &w.journal[i]
		if sp.to <= surviving {
			st = sp.post
			continue
		}
		if sp.from < surviving {
			return sp.pre, sp
		}
		break
	}
	return st, nil
}

// truncate forgets everything after `surviving`; a partially surviving span is
// kept, cut to what survived (its post state is set by the caller once the
// recovered tree has been looked at).
func (w *world) truncate(surviving int) {
	out := w.journal[:0]
	for _, sp := range w.journal {
		if sp.to <= surviving {
			out = append(out, sp)
			continue
		}
		if sp.from < surviving {
			sp.to = surviving
			sp.post = sp.pre
			out = append(out, sp)
		}
		break
	}
	w.journal = out
	w.applied = surviving
}

// settle records what a partially surviving span turned out to be. With
// extend, everything issued since (recovery writes, the re-issued deletion) is
// folded into that span.
func (w *world) settle(from int, kind string, post *tstate, extend bool) {
	for i := range w.journal {
		if w.journal[i].from == from && w.journal[i].kind == kind {
			w.journal[i].post = post
			if extend {
				w.journal[i].to = w.applied
				w.journal = w.journal[:i+1]
			}
			return
		}
	}
}

type isim struct {
	c    *kernel.Choices
	r    *kernel.Result
	p    kernel.Params
	prop string

	w  *world
	t  *iv.MutableTree
	cf cfg

	st      *tstate // current logical on-disk state
	working map[string][]byte
	loaded  int64 // version the working tree derives from
	session []lop

	ref       *iv.MutableTree // reference twin: production config, own disk, never faulted/reopened/pruned
	refLatest int64
	refOf     *tstate // the history the twin currently holds

	keys   []string
	valCtr int
	stop   bool
	known  map[string]bool

	// the world / configuration currently under examination (main line or a clone)
	xw       *world
	xcf      cfg
	knownHit bool // the last failure matched KNOWN_FINDINGS
}

// rootCause: C30 quantifies over histories of sets, removes, saves, loads and
// version deletions; it says nothing about a process dying half way through
// SaveVersion or DeleteVersionsTo. iavl issues SEVERAL physical writes for one
// such call once its BatchWithFlusher auto-flushes, so a crash image cut inside
// it (and any later state of that disk: the debris stays) is outside the
// property: whatever is observed there is counted as a probe, never reported.
//
// The one root cause that IS inside the property: a fast index that iavl cannot
// know to be stale (see world.staleFast); every failure under it is reported
// under one oracle id (the specific oracle goes into the message).
func (s *isim) rootCause() (observationOnly bool, oracle string) {
	switch {
	case s.xw.tainted:
		return true, "image_cut_inside_SaveVersion"
	case s.xw.tornPrune:
		return true, "image_cut_inside_DeleteVersionsTo"
	case s.xw.staleFast && !s.xcf.skipFast:
		return false, "fast-index-stale-after-overwrite-while-disabled"
	}
	return false, ""
}

// fail reports a violation. A violation listed in KNOWN_FINDINGS is recorded
// and the run ends quietly (the state after it is not trustworthy).
func (s *isim) fail(oracle, format string, args ...any) {
	s.stop = true
	msg := fmt.Sprintf(format, args...)
	obs, rc := s.rootCause()
	if obs {
		s.r.Probe(rc + ":" + oracle)
		s.knownHit = true
		s.c.Event("observation outside the property (%s): %s", rc, oracle)
		return
	}
	if rc != "" {
		msg = "[" + oracle + "] " + msg
		oracle = rc
	}
	v := &kernel.Violation{Property: s.prop, Oracle: oracle, Signature: oracle, Msg: msg}
	s.knownHit = false
	if s.p.IsKnown(v) != nil {
		s.knownHit = true
		if !s.known[oracle] {
			s.known[oracle] = true
			s.r.Known = append(s.r.Known, *v)
		}
		s.c.Event("known finding %s: run ends", oracle)
		return
	}
	if s.r.Violation == nil {
		s.r.Violation = v
	}
}

func (s *isim) drawCfg() cfg {
	c := s.c
	return cfg{
		cache:    []int{10000, 0, 1, 3, 50}[c.Intn(5)],
		skipFast: !c.Chance(2, 5),
		flush:    []int{100000, 1, 300, 5000}[c.Weighted([]int{5, 1, 2, 2})],
		sync:     c.Bool(),
	}
}

func newTree(db dbm.DB, cf cfg) *iv.MutableTree {
	return iv.NewMutableTree(db, cf.cache, cf.skipFast, iv.NewNopLogger(),
		iv.FlushThresholdOption(cf.flush), iv.SyncOption(cf.sync))
}

// openTree constructs a tree on w and loads the latest version. Load may write
// (fast-index upgrade), which is a logically neutral journal span.
func openTree(w *world, cf cfg, st *tstate) (*iv.MutableTree, error) {
	from := w.applied
	if !cf.skipFast {
		w.everFast = true
	}
	t := newTree(w.disk.Open(), cf)
	_, err := t.Load()
	if w.applied != from {
		w.journal = append(w.journal, span{from: from, to: w.applied, kind: "upgrade", pre: st, post: st})
	}
	return t, err
}

func copyMap(m map[string][]byte) map[string][]byte {
	n := make(map[string][]byte, len(m))
	for k, v := range m {
		n[k] = v
	}
	return n
}

func sortedKeys(m map[string][]byte) []string {
	ks := make([]string, 0, len(m))
	for k := range m {
		ks = append(ks, k)
	}
	sort.Strings(ks)
	return ks
}

func (s *isim) genKeys() {
	c := s.c
	n := []int{6, 40, 120, 400}[c.Weighted([]int{2, 4, 4, 2})]
	shape := c.Intn(3)
	s.keys = make([]string, n)
	for i := range s.keys {
		switch shape {
		case 0:
			s.keys[i] = fmt.Sprintf("k%05d", i)
		case 1: // shared prefixes and boundary bytes
			s.keys[i] = string([]byte{byte(i % 3 * 127), byte(i / 3 % 256), byte(i / 768)}) + "\x00\xff"[i%2:i%2+1]
		default:
			s.keys[i] = fmt.Sprintf("%x/%d", i%7, i)
		}
	}
	sort.Strings(s.keys)
	out := s.keys[:0]
	for i, k := range s.keys {
		if i == 0 || k != s.keys[i-1] {
			out = append(out, k)
		}
	}
	s.keys = out
}

func (s *isim) pickKey() string {
	c := s.c
	switch c.Intn(8) {
	case 0: // a key never in the keyspace (absent / between neighbours)
		return s.keys[c.Intn(len(s.keys))] + "~"
	case 1:
		return "\x00"
	case 2:
		return "\xff\xff\xff"
	}
	return s.keys[c.Intn(len(s.keys))]
}

func (s *isim) newVal() []byte {
	s.valCtr++
	c := s.c
	switch c.Intn(12) {
	case 0:
		return []byte{}
	case 1:
		return bytes.Repeat([]byte{byte(s.valCtr)}, 300+c.Intn(1500))
	}
	return []byte(fmt.Sprintf("v%d", s.valCtr))
}

// ---- reference twin --------------------------------------------------------

func (s *isim) applyRef(o lop) {
	if s.loaded != s.st.latest {
		return // the twin only mirrors sessions that can become the next version
	}
	applyTo(s.ref, o)
}

func applyTo(t *iv.MutableTree, o lop) {
	var err error
	if o.del {
		_, _, err = t.Remove([]byte(o.k))
	} else {
		_, err = t.Set([]byte(o.k), o.v)
	}
	if err != nil {
		kernel.Harnessf("replaying %+v: %v", o, err)
	}
}

// rebuildRef reconstructs the twin by replaying the recorded per-version
// sessions of st on a fresh tree; every hash must come out as recorded.
func (s *isim) rebuildRef(st *tstate) {
	s.ref = iv.NewMutableTree(simdb.NewDisk("ref", nil).Open(), 10000, true, iv.NewNopLogger())
	for i := int64(1); i <= st.latest; i++ {
		for _, o := range st.chain[i].ops {
			applyTo(s.ref, o)
		}
		h, ver, err := s.ref.SaveVersion()
		if err != nil || ver != i {
			kernel.Harnessf("ref twin rebuild: SaveVersion v%d: ver=%d err=%v", i, ver, err)
		}
		if !bytes.Equal(h, st.chain[i].hash) {
			s.fail("hash-vs-replayed-history", "version %d: hash %x recorded from the faulted tree, %x when the same logical history (without rolled-back ops) is replayed on a fresh tree", i, st.chain[i].hash, h)
			return
		}
	}
	s.refLatest = st.latest
	s.refOf = st
}

// ---- writes ----------------------------------------------------------------

func (s *isim) opSet() {
	k, v := s.pickKey(), s.newVal()
	if s.c.Chance(1, 6) {
		k = fmt.Sprintf("zz%06d", s.valCtr)
	}
	s.doSet(k, v)
}

func (s *isim) doSet(k string, v []byte) {
	_, had := s.working[k]
	upd, err := s.t.Set([]byte(k), v)
	s.c.Event("Set %q len=%d -> upd=%v err=%v", k, len(v), upd, err)
	if err != nil {
		s.fail("set-error", "Set(%q): %v", k, err)
		return
	}
	if upd != had {
		s.fail("set-updated-flag", "Set(%q) updated=%v, model had=%v", k, upd, had)
		return
	}
	s.working[k] = v
	o := lop{k: k, v: v}
	s.session = append(s.session, o)
	s.applyRef(o)
}

func (s *isim) opRemove() {
	k := s.pickKey()
	if ks := sortedKeys(s.working); len(ks) > 0 && s.c.Bool() {
		k = ks[s.c.Intn(len(ks))]
	}
	old, had := s.working[k]
	val, removed, err := s.t.Remove([]byte(k))
	s.c.Event("Remove %q -> removed=%v err=%v", k, removed, err)
	if err != nil {
		s.fail("remove-error", "Remove(%q): %v", k, err)
		return
	}
	if removed != had || (had && !bytes.Equal(val, old)) {
		s.fail("remove-result", "Remove(%q) = (%q,%v), model (%q,%v)", k, val, removed, old, had)
		return
	}
	if !had {
		return
	}
	delete(s.working, k)
	o := lop{del: true, k: k}
	s.session = append(s.session, o)
	s.applyRef(o)
}

// ---- reads -----------------------------------------------------------------

type reader interface {
	Get(key []byte) ([]byte, error)
	Has(key []byte) (bool, error)
	Size() int64
	GetByIndex(index int64) ([]byte, []byte, error)
	GetWithIndex(key []byte) (int64, []byte, error)
	IterateRange(start, end []byte, ascending bool, fn func(key, value []byte) bool) bool
	Iterator(start, end []byte, ascending bool) (dbm.Iterator, error)
	Iterate(fn func(key, value []byte) bool) (bool, error)
}

func inRange(ks []string, start, end []byte, asc bool) []string {
	var want []string
	for _, k := range ks {
		if (start == nil || k >= string(start)) && (end == nil || k < string(end)) {
			want = append(want, k)
		}
	}
	if !asc {
		for i, j := 0, len(want)-1; i < j; i, j = i+1, j-1 {
			want[i], want[j] = want[j], want[i]
		}
	}
	return want
}

func (s *isim) drawBounds(ks []string) (start, end []byte) {
	c := s.c
	pick := func() []byte {
		if len(ks) > 0 && c.Bool() {
			return []byte(ks[c.Intn(len(ks))]) // bound equal to a present key
		}
		return []byte(s.pickKey())
	}
	if c.Bool() {
		start = pick()
	}
	if c.Bool() {
		end = pick()
	}
	if start != nil && end != nil && bytes.Compare(start, end) > 0 {
		start, end = end, start
	}
	return
}

// checkReads compares a handful of reads on rd against model m.
func (s *isim) checkReads(what string, rd reader, m map[string][]byte, n int) {
	c := s.c
	ks := sortedKeys(m)
	if rd.Size() != int64(len(m)) {
		s.fail("size", "%s: Size=%d model=%d", what, rd.Size(), len(m))
		return
	}
	for i := 0; i < n && !s.stop; i++ {
		switch c.Intn(6) {
		case 0, 1:
			k := s.pickKey()
			if len(ks) > 0 && c.Bool() {
				k = ks[c.Intn(len(ks))]
			}
			v, err := rd.Get([]byte(k))
			mv, ok := m[k]
			// an empty value may legitimately read back as nil or empty: only Has tells
			if err != nil || !bytes.Equal(v, mv) || (!ok && v != nil) || (ok && len(mv) > 0 && v == nil) {
				s.fail("get", "%s: Get(%q)=%q,%v model=%q present=%v", what, k, v, err, mv, ok)
				return
			}
			h, err := rd.Has([]byte(k))
			if err != nil || h != ok {
				s.fail("has", "%s: Has(%q)=%v,%v model=%v", what, k, h, err, ok)
				return
			}
		case 2:
			if len(ks) == 0 {
				continue
			}
			i := c.Intn(len(ks))
			k, v, err := rd.GetByIndex(int64(i))
			if err != nil || string(k) != ks[i] || !bytes.Equal(v, m[ks[i]]) {
				s.fail("get-by-index", "%s: GetByIndex(%d)=(%q,%q,%v) model (%q,%q)", what, i, k, v, err, ks[i], m[ks[i]])
				return
			}
		case 3:
			if len(ks) == 0 {
				continue // GetWithIndex on an empty tree: index unspecified
			}
			k := s.pickKey()
			idx, v, err := rd.GetWithIndex([]byte(k))
			want := sort.SearchStrings(ks, k)
			mv, ok := m[k]
			if err != nil || idx != int64(want) || !bytes.Equal(v, mv) || (!ok && v != nil) {
				s.fail("get-with-index", "%s: GetWithIndex(%q)=(%d,%q,%v) model (%d,%q,%v)", what, k, idx, v, err, want, mv, ok)
				return
			}
		case 4:
			start, end := s.drawBounds(ks)
			asc := c.Bool()
			var got []string
			bad := ""
			rd.IterateRange(start, end, asc, func(k, v []byte) bool {
				got = append(got, string(k))
				if !bytes.Equal(v, m[string(k)]) {
					bad = fmt.Sprintf("value of %q is %q, model %q", k, v, m[string(k)])
				}
				return false
			})
			want := inRange(ks, start, end, asc)
			if bad != "" || fmt.Sprint(got) != fmt.Sprint(want) {
				s.fail("iterate-range", "%s: IterateRange(%q,%q,asc=%v) %s got %d keys want %d: %.300q vs %.300q", what, start, end, asc, bad, len(got), len(want), got, want)
				return
			}
		case 5:
			start, end := s.drawBounds(ks)
			asc := c.Bool()
			s.checkIterator(what, rd, ks, m, start, end, asc)
		}
	}
}

func (s *isim) checkIterator(what string, rd reader, ks []string, m map[string][]byte, start, end []byte, asc bool) {
	it, err := rd.Iterator(start, end, asc)
	if err != nil {
		s.fail("iterator", "%s: Iterator(%q,%q,%v): %v", what, start, end, asc, err)
		return
	}
	var got []string
	bad := ""
	for ; it.Valid(); it.Next() {
		k, v := it.Key(), it.Value()
		got = append(got, string(k))
		if !bytes.Equal(v, m[string(k)]) && bad == "" {
			bad = fmt.Sprintf("value of %q is %q, model %q", k, v, m[string(k)])
		}
		if len(got) > len(ks)+2 {
			break
		}
	}
	ierr := it.Error()
	it.Close()
	want := inRange(ks, start, end, asc)
	if ierr != nil || bad != "" || fmt.Sprint(got) != fmt.Sprint(want) {
		s.fail("iterator", "%s: Iterator(%q,%q,asc=%v) err=%v %s got %d keys want %d: %.300q vs %.300q", what, start, end, asc, ierr, bad, len(got), len(want), got, want)
	}
}

// fullCompare checks every key and value of rd against m (ordered).
func (s *isim) fullCompare(what string, rd reader, m map[string][]byte) {
	ks := sortedKeys(m)
	if rd.Size() != int64(len(m)) {
		s.fail("size", "%s: Size=%d model=%d", what, rd.Size(), len(m))
		return
	}
	s.checkIterator(what, rd, ks, m, nil, nil, true)
	if s.stop {
		return
	}
	var got []string
	bad := ""
	rd.IterateRange(nil, nil, false, func(k, v []byte) bool {
		got = append(got, string(k))
		if !bytes.Equal(v, m[string(k)]) {
			bad = fmt.Sprintf("value of %q is %q, model %q", k, v, m[string(k)])
		}
		return false
	})
	if want := inRange(ks, nil, nil, false); bad != "" || fmt.Sprint(got) != fmt.Sprint(want) {
		s.fail("iterate-range", "%s: full descending walk %s: %d keys, model %d", what, bad, len(got), len(want))
	}
}

func (s *isim) opReadWorking() {
	s.c.Event("read working")
	s.checkReads("working tree", s.t, s.working, 3)
	if !s.stop && s.loaded == s.st.latest && s.refLatest == s.st.latest {
		if h, rh := s.t.WorkingHash(), s.ref.WorkingHash(); !bytes.Equal(h, rh) {
			s.fail("working-hash-vs-twin", "WorkingHash %x differs from the reference twin's %x (config %+v)", h, rh, s.cf)
		}
	}
}

func (s *isim) pickVersion() int64 {
	if s.st.latest == 0 {
		return 0
	}
	return s.st.first + int64(s.c.Intn(int(s.st.latest-s.st.first+1)))
}

func (s *isim) opReadVersion() {
	v := s.pickVersion()
	if v == 0 {
		return
	}
	imm, err := s.t.GetImmutable(v)
	s.c.Event("read version %d err=%v", v, err)
	if err != nil {
		s.fail("retained-version-unreadable", "GetImmutable(%d) on a retained version: %v", v, err)
		return
	}
	vi := s.st.chain[v]
	s.checkReads(fmt.Sprintf("version %d", v), imm, vi.m, 3)
	if !s.stop && !bytes.Equal(imm.Hash(), vi.hash) {
		s.fail("saved-hash-changed", "version %d hash now %x, was %x at save", v, imm.Hash(), vi.hash)
	}
	if s.stop {
		return
	}
	if !s.t.VersionExists(v) {
		s.fail("version-exists", "VersionExists(%d)=false for a retained version", v)
		return
	}
	// GetVersioned
	k := s.pickKey()
	if ks := sortedKeys(vi.m); len(ks) > 0 && s.c.Bool() {
		k = ks[s.c.Intn(len(ks))]
	}
	got, err := s.t.GetVersioned([]byte(k), v)
	mv, ok := vi.m[k]
	if err != nil || !bytes.Equal(got, mv) || (!ok && got != nil) {
		s.fail("get-versioned", "GetVersioned(%q,%d)=%q,%v model %q present=%v (loaded %d latest %d cfg %+v)", k, v, got, err, mv, ok, s.loaded, s.st.latest, s.cf)
	}
}

// opStoreView: the same tree read through tm2/pkg/store/iavl (Get/Has, both
// iterators over the working tree, and a versioned /key query with proof).
func (s *isim) opStoreView() {
	st := storeiavl.UnsafeNewStore(s.t, storetypes.StoreOptions{})
	ks := sortedKeys(s.working)
	k := s.pickKey()
	if len(ks) > 0 && s.c.Bool() {
		k = ks[s.c.Intn(len(ks))]
	}
	start, end := s.drawBounds(ks)
	asc := s.c.Bool()
	ver := s.pickVersion()
	s.c.Event("store view: key=%q range=[%q,%q) asc=%v query-version=%d", k, start, end, asc, ver)
	s.r.Probe("store_views")
	var got []string
	bad := ""
	if p := tryPanic(func() {
		v := st.Get(nil, []byte(k))
		mv, ok := s.working[k]
		if !bytes.Equal(v, mv) || (!ok && v != nil) || st.Has(nil, []byte(k)) != ok {
			bad = fmt.Sprintf("Get/Has(%q) = %q, model %q present=%v", k, v, mv, ok)
			return
		}
		var it storetypes.Iterator
		if asc {
			it = st.Iterator(nil, start, end)
		} else {
			it = st.ReverseIterator(nil, start, end)
		}
		for ; it.Valid(); it.Next() { // always drained: the store iterator runs a goroutine
			kk, vv := it.Key(), it.Value()
			got = append(got, string(kk))
			if !bytes.Equal(vv, s.working[string(kk)]) && bad == "" {
				bad = fmt.Sprintf("iterator value of %q is %q, model %q", kk, vv, s.working[string(kk)])
			}
		}
		it.Close()
	}); p != nil {
		s.fail("store-panic", "store/iavl read of the working tree panicked: %v", p)
		return
	}
	if want := inRange(ks, start, end, asc); bad != "" || fmt.Sprint(got) != fmt.Sprint(want) {
		s.fail("store-read", "store/iavl over the working tree: %s; iterator [%q,%q) asc=%v got %d keys, model %d: %.200q vs %.200q", bad, start, end, asc, len(got), len(want), got, want)
		return
	}
	if ver == 0 || len(k) == 0 {
		return
	}
	var res abci.ResponseQuery
	if p := tryPanic(func() {
		res = st.Query(abci.RequestQuery{Path: "/key", Data: []byte(k), Height: ver, Prove: true})
	}); p != nil {
		s.fail("store-panic", "store/iavl Query(/key %q at %d, prove) panicked: %v", k, ver, p)
		return
	}
	mv, ok := s.st.chain[ver].m[k]
	if res.Error != nil || res.Height != ver || !bytes.Equal(res.Value, mv) || (!ok && res.Value != nil) {
		s.fail("store-query", "store/iavl Query(/key %q at version %d) = value %q height %d err=%v log=%q; model %q present=%v", k, ver, res.Value, res.Height, res.Error, res.Log, mv, ok)
		return
	}
	if res.Log == "" && (res.Proof == nil || len(res.Proof.Ops) != 1) {
		s.fail("store-query", "store/iavl Query(/key %q at version %d, prove) returned no proof op and no log", k, ver)
	}
}

func tryPanic(f func()) (p any) {
	defer func() { p = recover() }()
	f()
	return nil
}

// ---- proofs ----------------------------------------------------------------

func (s *isim) opProof() {
	v := s.pickVersion()
	if v == 0 {
		return
	}
	imm, err := s.t.GetImmutable(v)
	if err != nil {
		s.fail("retained-version-unreadable", "GetImmutable(%d): %v", v, err)
		return
	}
	vi := s.st.chain[v]
	m, root := vi.m, vi.hash
	ks := sortedKeys(m)
	if len(ks) == 0 {
		if _, err := imm.GetProof([]byte("x")); err == nil {
			s.fail("proof-on-empty-tree", "v%d GetProof on an empty tree succeeded", v)
		}
		return
	}
	k := s.pickKey()
	if s.c.Bool() {
		k = ks[s.c.Intn(len(ks))]
	}
	s.c.Event("proof v=%d key=%q", v, k)
	val, present := m[k]
	idx := sort.SearchStrings(ks, k)
	// ics23's leaf op refuses empty keys and empty values: such leaves are unprovable
	emptyNeighbour := false
	if !present {
		if idx > 0 && len(m[ks[idx-1]]) == 0 {
			emptyNeighbour = true
		}
		if idx < len(ks) && len(m[ks[idx]]) == 0 {
			emptyNeighbour = true
		}
	}
	spec := ics23.IavlSpec
	other := s.pickVersion()
	otherRoot := s.st.chain[other].hash
	if present {
		p, err := imm.GetMembershipProof([]byte(k))
		if err != nil {
			s.fail("membership-proof-missing", "v%d GetMembershipProof(%q): %v", v, k, err)
			return
		}
		if len(val) == 0 {
			return
		}
		s.r.Probe("membership_proofs")
		if !ics23.VerifyMembership(spec, root, p, []byte(k), val) {
			s.fail("membership-proof-rejected", "v%d proof for present key %q does not verify against the version's root", v, k)
			return
		}
		if ok, err := imm.VerifyMembership(p, []byte(k)); err != nil || !ok {
			s.fail("membership-proof-rejected", "v%d ImmutableTree.VerifyMembership(%q)=%v,%v", v, k, ok, err)
			return
		}
		if ics23.VerifyMembership(spec, root, p, []byte(k), append(append([]byte{}, val...), 'x')) ||
			ics23.VerifyMembership(spec, root, p, []byte(k+"x"), val) {
			s.fail("membership-proof-unsound", "v%d proof for %q verifies for another key or value", v, k)
			return
		}
		if !bytes.Equal(otherRoot, root) && ics23.VerifyMembership(spec, otherRoot, p, []byte(k), val) {
			s.fail("membership-proof-unsound", "v%d proof for %q verifies against the different root of v%d", v, k, other)
			return
		}
		if ics23.VerifyNonMembership(spec, root, p, []byte(k)) {
			s.fail("membership-proof-unsound", "existence proof accepted as non-membership")
			return
		}
		if _, err := imm.GetNonMembershipProof([]byte(k)); err == nil {
			s.fail("nonmembership-proof-for-present-key", "v%d GetNonMembershipProof(%q) succeeded for a present key", v, k)
			return
		}
		// the version-addressed entry point must give an equally valid proof
		p2, err := s.t.GetVersionedProof([]byte(k), v)
		if err != nil || !ics23.VerifyMembership(spec, root, p2, []byte(k), val) {
			s.fail("membership-proof-rejected", "v%d GetVersionedProof(%q): err=%v or proof rejected", v, k, err)
		}
		return
	}
	p, err := imm.GetNonMembershipProof([]byte(k))
	if err != nil {
		s.fail("nonmembership-proof-missing", "v%d GetNonMembershipProof(%q): %v", v, k, err)
		return
	}
	s.r.Probe("nonmembership_proofs")
	switch {
	case idx == 0:
		s.r.Probe("nonmembership_before_first")
	case idx == len(ks):
		s.r.Probe("nonmembership_after_last")
	default:
		s.r.Probe("nonmembership_between")
	}
	ok := ics23.VerifyNonMembership(spec, root, p, []byte(k))
	if !ok && !emptyNeighbour {
		s.fail("nonmembership-proof-rejected", "v%d proof for absent key %q (index %d of %d) does not verify", v, k, idx, len(ks))
		return
	}
	if ok {
		if ok2, err := imm.VerifyNonMembership(p, []byte(k)); err != nil || !ok2 {
			s.fail("nonmembership-proof-rejected", "v%d ImmutableTree.VerifyNonMembership(%q)=%v,%v", v, k, ok2, err)
			return
		}
	}
	// must not verify for a present key, nor for a key outside the neighbour gap, nor for another root
	pk := ks[s.c.Intn(len(ks))]
	if ics23.VerifyNonMembership(spec, root, p, []byte(pk)) {
		s.fail("nonmembership-proof-unsound", "v%d non-membership proof for %q verifies for present key %q", v, k, pk)
		return
	}
	far := s.pickKey()
	if _, farPresent := m[far]; !farPresent && sort.SearchStrings(ks, far) != idx && ics23.VerifyNonMembership(spec, root, p, []byte(far)) {
		s.fail("nonmembership-proof-unsound", "v%d non-membership proof for %q (gap %d) verifies for %q (gap %d)", v, k, idx, far, sort.SearchStrings(ks, far))
		return
	}
	if !bytes.Equal(otherRoot, root) && ics23.VerifyNonMembership(spec, otherRoot, p, []byte(k)) {
		s.fail("nonmembership-proof-unsound", "v%d non-membership proof for %q verifies against the different root of v%d", v, k, other)
		return
	}
	if ics23.VerifyMembership(spec, root, p, []byte(k), []byte("x")) {
		s.fail("nonmembership-proof-unsound", "non-existence proof accepted as membership")
		return
	}
	if _, err := imm.GetMembershipProof([]byte(k)); err == nil {
		s.fail("membership-proof-for-absent-key", "v%d GetMembershipProof(%q) succeeded for an absent key", v, k)
	}
}

// ---- save ------------------------------------------------------------------

func (s *isim) stateAfterSave(h []byte) *tstate {
	pre := s.st
	post := &tstate{first: pre.first, latest: pre.latest + 1}
	if pre.latest == 0 {
		post.first = 1
	}
	post.chain = append(append([]*vinfo(nil), pre.chain...), &vinfo{m: copyMap(s.working), hash: h, ops: s.session})
	return post
}

func (s *isim) commitSave(from int, h []byte, ver int64) bool {
	if ver != s.st.latest+1 {
		s.fail("save-version-number", "SaveVersion returned version %d, expected %d", ver, s.st.latest+1)
		return false
	}
	post := s.stateAfterSave(h)
	s.w.journal = append(s.w.journal, span{from: from, to: s.w.applied, kind: "save", pre: s.st, post: post})
	if n := s.w.applied - from; n > 1 {
		s.r.Probe("saves_with_several_physical_writes")
		if n > s.r.Probes["max_physical_writes_per_save"] {
			s.r.Probes["max_physical_writes_per_save"] = n
		}
	}
	s.st = post
	s.loaded = ver
	s.session = nil
	rh, rv, rerr := s.ref.SaveVersion()
	if rerr != nil || rv != ver {
		kernel.Harnessf("ref twin SaveVersion: v=%d err=%v (want v%d)", rv, rerr, ver)
	}
	s.refLatest = ver
	s.refOf = post
	if !bytes.Equal(h, rh) {
		s.fail("hash-vs-twin", "version %d: root hash %x, reference twin (no reopen, big cache, no fast index, no pruning) %x; config %+v", ver, h, rh, s.cf)
		return false
	}
	return true
}

func (s *isim) opSave() {
	if s.loaded != s.st.latest {
		s.saveAtOldVersion()
		return
	}
	from := s.w.applied
	h, ver, err := s.t.SaveVersion()
	s.c.Event("SaveVersion -> v=%d hash=%x err=%v", ver, h, err)
	if err != nil {
		s.fail("save-error", "SaveVersion: %v", err)
		return
	}
	s.commitSave(from, h, ver)
}

// saveAtOldVersion: the tree was loaded at an older version. SaveVersion must
// either refuse or be the documented idempotent no-op (same hash as the
// existing next version) - it must never replace a saved version.
func (s *isim) saveAtOldVersion() {
	next := s.loaded + 1
	from := s.w.applied
	h, ver, err := s.t.SaveVersion()
	s.c.Event("SaveVersion at old version %d -> v=%d err=%v", s.loaded, ver, err != nil)
	if s.w.applied != from && err != nil {
		s.fail("refused-save-wrote", "SaveVersion at old version %d failed (%v) but issued %d physical writes", s.loaded, err, s.w.applied-from)
		return
	}
	if err != nil {
		s.r.Probe("save_at_old_version_refused")
		return
	}
	vi := s.st.chain[next]
	if ver != next || !bytes.Equal(h, vi.hash) {
		s.fail("saved-version-overwritten", "SaveVersion on a tree loaded at %d returned v%d hash %x; existing v%d has hash %x", s.loaded, ver, h, next, vi.hash)
		return
	}
	if fmt.Sprint(s.working) != fmt.Sprint(vi.m) {
		s.fail("saved-version-overwritten", "SaveVersion on a tree loaded at %d was accepted as idempotent although the contents differ from v%d", s.loaded, next)
		return
	}
	s.r.Probe("save_at_old_version_idempotent")
	s.loaded = next
	s.session = nil
	if !s.cf.skipFast {
		// the idempotent path keeps the session's unsaved fast-node maps; Rollback is
		// the documented way to get a clean working tree
		s.t.Rollback()
	}
}

func (s *isim) opRollback() {
	s.t.Rollback()
	s.c.Event("Rollback")
	s.working = copyMap(s.st.chain[s.loaded].m)
	s.session = nil
	if s.loaded == s.st.latest {
		s.ref.Rollback()
	}
	s.r.Probe("rollbacks")
	s.checkReads("after rollback", s.t, s.working, 2)
}

// discardSession: Rollback is the documented way to drop unsaved changes.
// With the fast index disabled LoadVersion replaces the whole working tree, so
// it is also exercised on a dirty tree there.
func (s *isim) discardSession() {
	if len(s.session) == 0 {
		return
	}
	if s.loaded == s.st.latest {
		s.ref.Rollback()
	}
	if !s.cf.skipFast || s.c.Bool() {
		s.t.Rollback()
		s.c.Event("Rollback (discard session)")
	}
	s.working = copyMap(s.st.chain[s.loaded].m)
	s.session = nil
}

func (s *isim) loadVersion(v int64) bool {
	s.discardSession()
	from := s.w.applied
	_, err := s.t.LoadVersion(v)
	if s.w.applied != from {
		s.w.journal = append(s.w.journal, span{from: from, to: s.w.applied, kind: "upgrade", pre: s.st, post: s.st})
	}
	s.c.Event("LoadVersion %d err=%v", v, err)
	if err != nil {
		s.fail("retained-version-unreadable", "LoadVersion(%d) of a retained version: %v", v, err)
		return false
	}
	s.loaded = v
	s.working = copyMap(s.st.chain[v].m)
	s.session = nil
	return true
}

func (s *isim) opLoadVersion() {
	v := s.pickVersion()
	if v == 0 {
		return
	}
	if s.loadVersion(v) {
		s.checkReads(fmt.Sprintf("after LoadVersion(%d)", v), s.t, s.working, 2)
	}
}

func (s *isim) ensureAtLatest() bool {
	if s.loaded != s.st.latest {
		if s.st.latest == 0 {
			kernel.Harnessf("loaded %d but no versions", s.loaded)
		}
		return s.loadVersion(s.st.latest)
	}
	return true
}

// ---- version deletion ------------------------------------------------------

func (s *isim) stateAfterPrune(to int64) *tstate {
	post := &tstate{first: s.st.first, latest: s.st.latest, chain: s.st.chain}
	if to+1 > post.first {
		post.first = to + 1
	}
	return post
}

// intact reports whether version v can be loaded and has exactly the content
// and hash recorded for it (no oracle is fired).
func intact(t *iv.MutableTree, v int64, vi *vinfo) (ok bool) {
	defer func() {
		if recover() != nil {
			ok = false
		}
	}()
	imm, err := t.GetImmutable(v)
	if err != nil || imm.Size() != int64(len(vi.m)) || !bytes.Equal(imm.Hash(), vi.hash) {
		return false
	}
	n := 0
	good := true
	imm.IterateRange(nil, nil, true, func(k, val []byte) bool {
		mv, present := vi.m[string(k)]
		if !present || !bytes.Equal(mv, val) {
			good = false
		}
		n++
		return false
	})
	return good && n == len(vi.m)
}

// checkGone: versions lo..hi were deleted. Documented (doc.go): VersionExists is
// false and GetVersioned returns nil for a deleted version. That GetImmutable
// may still succeed (the root node lives on as a child of the next version) is
// only counted.
func (s *isim) checkGone(why string, chain []*vinfo, lo, hi int64) {
	for v := lo; v <= hi && !s.stop; v++ {
		if v < 1 {
			continue
		}
		if s.t.VersionExists(v) {
			s.fail("deleted-version-still-exists", "%s: VersionExists(%d) is true", why, v)
			return
		}
		if _, err := s.t.GetImmutable(v); err == nil {
			if intact(s.t, v, chain[v]) {
				s.r.Probe("deleted_version_still_loadable_with_its_old_content")
			} else {
				s.r.Probe("deleted_version_loadable_with_other_content")
			}
		}
		if got, err := s.t.GetVersioned([]byte(s.pickKey()), v); err != nil || got != nil {
			s.fail("deleted-version-get-versioned", "%s: GetVersioned(_, %d) = %q, %v for a deleted version (documented: nil)", why, v, got, err)
			return
		}
	}
}

func (s *isim) deleteFailed(to int64, from int, err error) {
	s.r.Probe("DeleteVersionsTo_returned_an_error")
	if s.w.applied > from {
		s.r.Probe("DeleteVersionsTo_returned_an_error_after_auto_flushing_part_of_the_deletion")
	}
	for v := s.st.first; v <= s.st.latest; v++ {
		if s.t.VersionExists(v) && !intact(s.t, v, s.st.chain[v]) {
			s.fail("listed-version-unreadable-after-failed-delete", "DeleteVersionsTo(%d) (first %d latest %d, flush threshold %d) returned %q after %d physical writes; version %d is still listed (VersionExists) but no longer reads back as saved", to, s.st.first, s.st.latest, s.cf.flush, err, s.w.applied-from, v)
			return
		}
	}
	s.c.Event("DeleteVersionsTo failed; every listed version still reads back: run ends (state unspecified)")
	s.stop = true
}

func (s *isim) opDeleteTo(crash bool) {
	if s.st.latest < 2 || !s.ensureAtLatest() {
		return
	}
	to := s.st.first - 1 + int64(s.c.Intn(int(s.st.latest-s.st.first+2))) // first-1 .. latest
	if to >= s.st.latest {
		from := s.w.applied
		err := s.t.DeleteVersionsTo(to)
		s.c.Event("DeleteVersionsTo(%d) with latest %d -> err=%v", to, s.st.latest, err != nil)
		if err == nil {
			s.fail("delete-latest-accepted", "DeleteVersionsTo(%d) succeeded although the latest version is %d", to, s.st.latest)
		} else if s.w.applied != from {
			s.fail("refused-delete-wrote", "refused DeleteVersionsTo(%d) issued physical writes", to)
		}
		return
	}
	post := s.stateAfterPrune(to)
	from := s.w.applied
	if crash {
		at := 1 + s.c.Intn(3)
		s.c.Event("DeleteVersionsTo(%d): process dies at its physical write #%d", to, at)
		var err error
		if !s.w.crashIn(at, func() { err = s.t.DeleteVersionsTo(to) }) {
			s.c.Event("DeleteVersionsTo completed before the crash point -> %v", err)
			if err != nil {
				s.deleteFailed(to, from, err)
				return
			}
			s.w.journal = append(s.w.journal, span{from: from, to: s.w.applied, kind: "prune", pre: s.st, post: post})
			s.st = post
			return
		}
		s.w.journal = append(s.w.journal, span{from: from, to: math.MaxInt, kind: "prune", pre: s.st, post: post})
		s.crashAndRecover(fmt.Sprintf("DeleteVersionsTo(%d), write #%d", to, at), s.c.Bool())
		return
	}
	err := s.t.DeleteVersionsTo(to)
	s.c.Event("DeleteVersionsTo(%d) -> %v", to, err)
	if err != nil {
		s.deleteFailed(to, from, err)
		return
	}
	s.w.journal = append(s.w.journal, span{from: from, to: s.w.applied, kind: "prune", pre: s.st, post: post})
	oldFirst := s.st.first
	s.st = post
	s.r.Probe("version_deletions")
	s.checkGone("after DeleteVersionsTo", s.st.chain, oldFirst, to)
	if s.stop {
		return
	}
	// the version right after the deleted range shares most nodes with it
	imm, err := s.t.GetImmutable(post.first)
	if err != nil {
		s.fail("retained-version-unreadable", "after DeleteVersionsTo(%d): GetImmutable(%d): %v", to, post.first, err)
		return
	}
	s.fullCompare(fmt.Sprintf("version %d right after DeleteVersionsTo(%d)", post.first, to), imm, s.st.chain[post.first].m)
	if !s.stop && !bytes.Equal(imm.Hash(), s.st.chain[post.first].hash) {
		s.fail("saved-hash-changed", "version %d hash changed by DeleteVersionsTo(%d)", post.first, to)
	}
	if !s.stop {
		s.checkReads("working tree after delete", s.t, s.working, 2)
	}
}

// opOverwrite: LoadVersionForOverwriting deletes every version above v.
func (s *isim) opOverwrite() {
	if s.st.latest < 2 {
		return
	}
	v := s.pickVersion()
	s.discardSession()
	post := &tstate{first: s.st.first, latest: v, chain: s.st.chain[:v+1:v+1]}
	from := s.w.applied
	if s.cf.skipFast && s.w.everFast && v < s.st.latest {
		s.w.staleFast = true
		s.r.Probe("overwrite_while_fast_index_disabled")
	}
	err := s.t.LoadVersionForOverwriting(v)
	s.c.Event("LoadVersionForOverwriting(%d) latest was %d -> %v", v, s.st.latest, err)
	if err != nil {
		s.fail("overwrite-error", "LoadVersionForOverwriting(%d): %v", v, err)
		return
	}
	s.w.journal = append(s.w.journal, span{from: from, to: s.w.applied, kind: "overwrite", pre: s.st, post: post})
	oldLatest, oldChain := s.st.latest, s.st.chain
	s.st = post
	s.loaded = v
	s.working = copyMap(post.chain[v].m)
	s.session = nil
	s.r.Probe("overwrites")
	s.rebuildRef(post)
	if s.stop {
		return
	}
	s.checkGone("after LoadVersionForOverwriting", oldChain, v+1, oldLatest)
	if !s.stop {
		s.verifyTree("after LoadVersionForOverwriting", s.t, post, false)
	}
}

// ---- faults ----------------------------------------------------------------

func (s *isim) opReopen() {
	s.cf = s.drawCfg()
	s.xcf = s.cf
	s.c.Event("close+reopen cfg=%+v", s.cf)
	if err := s.t.Close(); err != nil {
		s.fail("close-error", "Close: %v", err)
		return
	}
	s.r.Fault("reopen")
	s.ref.Rollback()
	t, err := openTree(s.w, s.cf, s.st)
	if err != nil {
		s.fail("reopen-error", "Load after clean close (cfg %+v): %v", s.cf, err)
		return
	}
	s.t = t
	s.loaded = s.st.latest
	s.working = copyMap(s.st.chain[s.loaded].m)
	s.session = nil
	s.verifyTree("reopen", s.t, s.st, false)
}

// verifyTree checks a freshly loaded tree against logical state st.
func (s *isim) verifyTree(why string, t *iv.MutableTree, st *tstate, deep bool) {
	if v := t.Version(); v != st.latest {
		s.fail("recovered-version", "%s: tree is at version %d, expected %d", why, v, st.latest)
		return
	}
	var got []int64
	for _, av := range t.AvailableVersions() {
		if av != 0 {
			got = append(got, int64(av))
		}
	}
	var want []int64
	for v := st.first; v <= st.latest && st.latest > 0; v++ {
		want = append(want, v)
	}
	if fmt.Sprint(got) != fmt.Sprint(want) {
		// versions deleted earlier that are listed again after a restart (the root
		// node of one of them lives on as a child in later versions, and restart
		// takes it for the first version) are a class of their own
		if len(got) > len(want) && fmt.Sprint(got[len(got)-len(want):]) == fmt.Sprint(want) && got[0] >= 1 && got[0] < st.first {
			unreadable := 0
			for _, v := range got[:len(got)-len(want)] {
				if !intact(t, v, st.chain[v]) {
					unreadable++
				}
			}
			s.fail("deleted-version-listed-after-restart", "%s: AvailableVersions=%v, expected %v: versions deleted earlier are listed again (VersionExists true); %d of them do not read back", why, got, want, unreadable)
		} else {
			s.fail("available-versions", "%s: AvailableVersions=%v, expected %v", why, got, want)
		}
		return
	}
	if st.latest > 0 {
		vi := st.chain[st.latest]
		if vi.hash == nil {
			vi.hash = t.Hash() // version completed by a save whose return value was never seen; the twin replay checks it
		}
		if !bytes.Equal(t.Hash(), vi.hash) {
			s.fail("hash-after-reopen", "%s: version %d hash %x, %x when saved", why, st.latest, t.Hash(), vi.hash)
			return
		}
	}
	s.fullCompare(why+": latest version", t, st.chain[st.latest].m)
	for v := st.first; v <= st.latest && st.latest > 0 && !s.stop; v++ {
		if !deep && !s.c.Chance(1, 2) {
			continue
		}
		imm, err := t.GetImmutable(v)
		if err != nil {
			s.fail("retained-version-unreadable", "%s: GetImmutable(%d): %v", why, v, err)
			return
		}
		what := fmt.Sprintf("%s: version %d", why, v)
		if deep {
			s.fullCompare(what, imm, st.chain[v].m)
		} else {
			s.checkReads(what, imm, st.chain[v].m, 2)
		}
		if !s.stop && !bytes.Equal(imm.Hash(), st.chain[v].hash) {
			s.fail("saved-hash-changed", "%s: version %d hash %x, %x when saved", why, v, imm.Hash(), st.chain[v].hash)
		}
	}
	if !s.stop && st.first > 1 {
		if t.VersionExists(st.first - 1) {
			s.fail("deleted-version-still-exists", "%s: VersionExists(%d) although versions below %d were deleted", why, st.first-1, st.first)
		}
	}
}

// recoverWorld takes the crash image of w (kill: every issued write survives;
// power loss: a suffix of the unsynced writes is dropped), reopens with a
// fresh configuration and checks the tree against the state the journal
// prescribes. It returns the reopened tree and the state it is in; t == nil
// after a failure or (unspecified == true) when the package promises nothing
// for that image.
func (s *isim) recoverWorld(w *world, where string, powerLoss bool, deep bool) (t *iv.MutableTree, st *tstate, cf cfg, unspecified bool) {
	un := w.disk.Unsynced()
	keep := un
	if powerLoss && un > 0 {
		keep = s.c.Intn(un + 1)
		s.r.Fault("power_loss")
	} else {
		s.r.Fault("kill")
	}
	dropped := w.disk.Crash(keep)
	w.mach.Reboot()
	w.crashed, w.crashAt = false, 0
	surviving := w.applied - un + keep
	st, partial := w.resolve(surviving)
	var part *span
	pk := "-"
	if partial != nil {
		cp := *partial
		part, pk = &cp, cp.kind
	}
	w.truncate(surviving)
	cf = s.drawCfg()
	s.c.Event("crash image (%s): unsynced=%d kept=%d dropped=%d cut-inside=%s reopen cfg=%+v", where, un, keep, dropped, pk, cf)
	if part != nil && part.kind == "overwrite" {
		// a half-done LoadVersionForOverwriting: the package promises nothing
		s.r.Probe("cut_inside_overwrite_unspecified")
		return nil, nil, cf, true
	}
	why := fmt.Sprintf("recovery from the crash image of %s (%d of %d unsynced writes kept, cut inside: %s)", where, keep, un, pk)
	if part != nil && part.kind == "save" {
		w.tainted = true
	}
	if part != nil && part.kind == "prune" {
		w.tornPrune = true
	}
	defer func(w0 *world, c0 cfg) { s.xw, s.xcf = w0, c0 }(s.xw, s.xcf)
	s.xw, s.xcf = w, cf
	t, err := openTree(w, cf, st)
	if err != nil {
		s.fail("recovery-load-error", "%s: Load (cfg %+v): %v", why, cf, err)
		return nil, nil, cf, false
	}
	if part != nil {
		s.r.Probe("cut_inside_" + part.kind)
	}
	switch {
	case part == nil || part.kind == "upgrade":
		s.verifyTree(why, t, st, deep)
	case part.kind == "save":
		switch v := t.Version(); v {
		case part.pre.latest:
			st = part.pre
			s.r.Probe("image_cut_inside_SaveVersion:recovered_to_previous_version")
		case part.post.latest:
			st = part.post
			s.r.Probe("image_cut_inside_SaveVersion:recovered_to_new_version")
		default:
			s.fail("recovered-version", "%s: tree is at version %d, neither the previous (%d) nor the new (%d)", why, v, part.pre.latest, part.post.latest)
			return nil, nil, cf, false
		}
		s.verifyTree(why, t, st, deep)
		w.settle(part.from, part.kind, st, false)
	case part.kind == "prune":
		st = s.recoverPrune(w, why, t, part)
	}
	if s.stop {
		return nil, nil, cf, false
	}
	return t, st, cf, false
}

// recoverPrune: the image was cut inside DeleteVersionsTo. Versions the call
// was asked to keep must be intact; the range being deleted is unspecified
// until the deletion is completed by issuing it again, which must work.
func (s *isim) recoverPrune(w *world, why string, t *iv.MutableTree, sp *span) *tstate {
	post := sp.post
	if v := t.Version(); v != post.latest {
		s.fail("recovered-version", "%s: tree is at version %d, expected %d", why, v, post.latest)
		return nil
	}
	if !bytes.Equal(t.Hash(), post.chain[post.latest].hash) {
		s.fail("hash-after-reopen", "%s: latest hash changed", why)
		return nil
	}
	for v := post.first; v <= post.latest && !s.stop; v++ {
		imm, err := t.GetImmutable(v)
		if err != nil {
			s.fail("retained-version-unreadable", "%s: GetImmutable(%d): %v", why, v, err)
			return nil
		}
		s.fullCompare(fmt.Sprintf("%s: retained version %d", why, v), imm, post.chain[v].m)
	}
	if s.stop {
		return nil
	}
	err := t.DeleteVersionsTo(post.first - 1)
	s.c.Event("re-issue DeleteVersionsTo(%d) after the crash -> %v", post.first-1, err)
	if err != nil {
		s.fail("delete-not-resumable-after-crash", "%s: DeleteVersionsTo(%d) issued again after the crash fails: %v", why, post.first-1, err)
		return nil
	}
	w.settle(sp.from, sp.kind, post, true)
	s.verifyTree(why+", deletion re-issued", t, post, false)
	return post
}

func sameHistory(a, b *tstate) bool {
	if a.latest != b.latest {
		return false
	}
	for i := int64(1); i <= a.latest; i++ {
		if a.chain[i] != b.chain[i] {
			return false
		}
	}
	return true
}

func (s *isim) crashAndRecover(where string, powerLoss bool) {
	s.ref.Rollback()
	t, st, cf, unspecified := s.recoverWorld(s.w, where, powerLoss, false)
	if unspecified {
		s.stop = true
		return
	}
	if t == nil {
		return
	}
	if s.w.tainted || s.w.tornPrune {
		// the image was cut inside a multi-write call: it has been looked at (probes);
		// what follows on this disk is outside the property
		s.r.Probe("runs_ended_by_an_image_cut_inside_a_multi_write_call")
		s.stop = true
		return
	}
	s.t, s.cf, s.xcf = t, cf, cf
	if st.latest < s.st.latest {
		s.r.Probe("versions_lost_in_crash")
	}
	s.st = st
	s.loaded = st.latest
	s.working = copyMap(st.chain[st.latest].m)
	s.session = nil
	if !sameHistory(st, s.refOf) {
		s.rebuildRef(st)
	}
}

func (s *isim) mutateALittle(n int) {
	for i := 0; i < n && !s.stop; i++ {
		if s.c.Intn(3) == 0 {
			s.opRemove()
		} else {
			s.opSet()
		}
	}
}

// opCrashInSave: main-line crash somewhere inside SaveVersion's writes (or right
// after it returned); the history then continues on whatever was recovered.
func (s *isim) opCrashInSave() {
	if !s.ensureAtLatest() {
		return
	}
	s.mutateALittle(1 + s.c.Intn(4))
	if s.stop {
		return
	}
	if s.c.Chance(1, 4) {
		s.opSave()
		if s.stop {
			return
		}
		s.c.Event("crash right after SaveVersion returned")
		s.crashAndRecover("idle right after SaveVersion", s.c.Bool())
		return
	}
	post := s.stateAfterSave(nil) // hash unknown: nobody saw this save return
	from := s.w.applied
	at := 1 + s.c.Intn(1+s.c.Intn(6))
	s.c.Event("process dies at SaveVersion's physical write #%d", at)
	var h []byte
	var ver int64
	var err error
	if !s.w.crashIn(at, func() { h, ver, err = s.t.SaveVersion() }) {
		// fewer writes than drawn: the save completed
		s.c.Event("SaveVersion completed before the crash point -> v=%d err=%v", ver, err)
		if err != nil {
			s.fail("save-error", "SaveVersion: %v", err)
			return
		}
		s.commitSave(from, h, ver)
		return
	}
	s.w.journal = append(s.w.journal, span{from: from, to: math.MaxInt, kind: "save", pre: s.st, post: post})
	s.crashAndRecover(fmt.Sprintf("SaveVersion, write #%d", at), s.c.Bool())
}

// dryRunSave counts the physical writes the pending SaveVersion will issue, on
// a clone of the disk with a fresh tree that replays the session.
func (s *isim) dryRunSave() int {
	w2 := s.w.clone()
	t2, err := openTree(w2, s.cf, s.st)
	if err != nil {
		kernel.Harnessf("clone: Load before replay: %v", err)
	}
	for _, o := range s.session {
		applyTo(t2, o)
	}
	from := w2.applied
	if _, _, err := t2.SaveVersion(); err != nil {
		kernel.Harnessf("clone: SaveVersion: %v", err)
	}
	return w2.applied - from
}

// opSaveWithError: an injected write error in SaveVersion's final commit write
// must surface as an error; the caller (gno's store) then dies, which is a
// crash. (An error in one of the earlier flush writes kills the process
// outright - see the note at world.hook - so it is the same as a crash there.)
func (s *isim) opSaveWithError() {
	if !s.ensureAtLatest() {
		return
	}
	s.opSet()
	if s.stop {
		return
	}
	nops := s.dryRunSave()
	if os.Getenv("VERIF_DEBUG") != "" {
		fmt.Fprintf(os.Stderr, "DEBUG opSaveWithError nops=%d cfg=%+v session=%d loaded=%d latest=%d\n", nops, s.cf, len(s.session), s.loaded, s.st.latest)
		for _, l := range s.c.Log[max(0, len(s.c.Log)-40):] {
			fmt.Fprintf(os.Stderr, "   %s\n", l)
		}
	}
	post := s.stateAfterSave(nil)
	from := s.w.applied
	at := s.w.mach.Ops + uint64(nops)
	s.w.mach.FailAt[at] = true
	s.w.failCancelled = false
	if s.cf.sync {
		s.w.failSyncOnly = at
	}
	before := s.w.mach.Counters["injected_error"]
	h, ver, err := s.t.SaveVersion()
	delete(s.w.mach.FailAt, at)
	s.w.failSyncOnly = 0
	fired := s.w.mach.Counters["injected_error"] > before
	if s.w.failCancelled {
		kernel.Harnessf("SaveVersion's write #%d was not its commit write (dry run said %d writes)", nops, nops)
	}
	_, _ = h, ver
	s.c.Event("SaveVersion with a write error injected into its last write (#%d) -> fired=%v err=%v", nops, fired, err != nil)
	if !fired {
		kernel.Harnessf("SaveVersion issued fewer writes (%d) than its dry run (%d)", s.w.applied-from, nops)
	}
	s.r.Fault("db_error_in_save")
	if err == nil {
		s.fail("save-swallowed-io-error", "SaveVersion returned nil although its commit write failed")
		return
	}
	s.w.journal = append(s.w.journal, span{from: from, to: math.MaxInt, kind: "save", pre: s.st, post: post})
	s.crashAndRecover("SaveVersion after a failed commit write", s.c.Bool())
}

func (s *isim) opPowerLossIdle() {
	if s.w.disk.Unsynced() == 0 {
		return
	}
	s.c.Event("power loss at a quiescent point")
	s.crashAndRecover("idle", true)
}

// opCrashEnum: enumerate the crash points of ONE SaveVersion. The disk is
// cloned before the save; on each clone a fresh tree replays the session and
// the save is run with the process dying at physical write #i; the image (kill
// or power loss) is reopened and must be exactly the previous or the new
// version. The main line performs the save normally.
func (s *isim) opCrashEnum() {
	if !s.ensureAtLatest() {
		return
	}
	n := 1 + s.c.Intn(5)
	if s.c.Chance(1, 5) {
		n = 50 + s.c.Intn(60) // a large commit (crosses the production flush threshold with big values)
	}
	big := n > 20
	for i := 0; i < n && !s.stop; i++ {
		switch {
		case big:
			s.doSet(s.pickKey(), bytes.Repeat([]byte{byte(i)}, 1500+s.c.Intn(600)))
		case s.c.Intn(3) == 0:
			s.opRemove()
		default:
			s.opSet()
		}
	}
	if s.stop {
		return
	}
	base := s.w.clone()
	session := append([]lop(nil), s.session...)
	pre := s.st
	cf := s.cf
	from := s.w.applied
	h, ver, err := s.t.SaveVersion()
	s.c.Event("SaveVersion (crash points enumerated on clones) -> v=%d err=%v", ver, err)
	if err != nil {
		s.fail("save-error", "SaveVersion: %v", err)
		return
	}
	nops := s.w.applied - from
	if !s.commitSave(from, h, ver) {
		return
	}
	post := s.st
	// which write indices to try: all when few, else both ends + drawn middle points
	var idx []int
	if nops <= 8 {
		for i := 1; i <= nops; i++ {
			idx = append(idx, i)
		}
	} else {
		idx = []int{1, 2, nops - 1, nops}
		for j := 0; j < 4; j++ {
			idx = append(idx, 3+s.c.Intn(nops-4))
		}
		sort.Ints(idx)
	}
	s.r.ProbeN("crash_points_enumerated", len(idx))
	prepare := func() (*world, *iv.MutableTree) {
		w2 := base.clone()
		t2, err := openTree(w2, cf, pre)
		if err != nil {
			kernel.Harnessf("clone: Load before replay: %v", err)
		}
		for _, o := range session {
			applyTo(t2, o)
		}
		return w2, t2
	}
	for _, i := range idx {
		if s.stop {
			return
		}
		w2, t2 := prepare()
		from2 := w2.applied
		if !w2.crashIn(i, func() { t2.SaveVersion() }) {
			kernel.Harnessf("clone: SaveVersion issued fewer than %d writes (main line issued %d)", i, nops)
		}
		w2.journal = append(w2.journal, span{from: from2, to: math.MaxInt, kind: "save", pre: pre, post: post})
		s.c.Event("clone: process dies at SaveVersion's write #%d of %d", i, nops)
		s.recoverWorld(w2, fmt.Sprintf("SaveVersion of v%d, write #%d of %d", post.latest, i, nops), s.c.Bool(), true)
		if s.stop && s.r.Violation == nil && s.knownHit {
			// an observation (or known finding) on a clone leaves the main line intact
			s.stop = false
		}
	}
	if s.stop {
		return
	}
	// and the image right after the save returned (power loss may cut into it)
	w2, t2 := prepare()
	from2 := w2.applied
	if _, _, err := t2.SaveVersion(); err != nil {
		kernel.Harnessf("clone: SaveVersion: %v", err)
	}
	w2.journal = append(w2.journal, span{from: from2, to: w2.applied, kind: "save", pre: pre, post: post})
	s.c.Event("clone: power loss right after SaveVersion returned")
	s.recoverWorld(w2, fmt.Sprintf("idle right after SaveVersion of v%d (%d writes)", post.latest, nops), true, true)
	if s.stop && s.r.Violation == nil && s.knownHit {
		s.stop = false
	}
}

// ---- export / import -------------------------------------------------------

func (s *isim) opExportImport() {
	v := s.pickVersion()
	if v == 0 || len(s.st.chain[v].m) == 0 {
		return
	}
	imm, err := s.t.GetImmutable(v)
	if err != nil {
		s.fail("retained-version-unreadable", "GetImmutable(%d): %v", v, err)
		return
	}
	exp, err := imm.Export()
	if err != nil {
		s.fail("export-error", "Export(v%d): %v", v, err)
		return
	}
	defer exp.Close()
	dst := iv.NewMutableTree(simdb.NewDisk("import", nil).Open(), []int{0, 10, 10000}[s.c.Intn(3)], s.c.Bool(), iv.NewNopLogger())
	imp, err := dst.Import(v)
	if err != nil {
		s.fail("import-error", "Import(%d) into empty db: %v", v, err)
		return
	}
	n := 0
	for {
		node, err := exp.Next()
		if errors.Is(err, iv.ErrExportDone) {
			break
		}
		if err != nil {
			s.fail("export-error", "Export(v%d).Next: %v", v, err)
			return
		}
		if err := imp.Add(node); err != nil {
			s.fail("import-error", "Import.Add: %v", err)
			return
		}
		n++
	}
	if err := imp.Commit(); err != nil {
		s.fail("import-error", "Import.Commit: %v", err)
		return
	}
	imp.Close()
	s.c.Event("export v%d -> import: %d nodes", v, n)
	s.r.Probe("export_import")
	if !bytes.Equal(dst.Hash(), s.st.chain[v].hash) {
		s.fail("import-hash", "version %d exported and imported into an empty db has hash %x, original %x", v, dst.Hash(), s.st.chain[v].hash)
		return
	}
	s.checkReads(fmt.Sprintf("imported v%d", v), dst, s.st.chain[v].m, 4)
}

// ---- one run ---------------------------------------------------------------

func runIavl(c *kernel.Choices, p kernel.Params) *kernel.Result {
	s := &isim{c: c, r: kernel.NewResult(), p: p, prop: p.Property, known: map[string]bool{}}
	s.w = newWorld()
	s.xw = s.w
	s.st = emptyState()
	s.working = map[string][]byte{}
	s.cf = s.drawCfg()
	s.xcf = s.cf
	s.genKeys()
	t, err := openTree(s.w, s.cf, s.st)
	if err != nil {
		kernel.Harnessf("initial open: %v", err)
	}
	s.t = t
	s.rebuildRef(s.st)
	c.Event("cfg=%+v keys=%d", s.cf, len(s.keys))

	nops := 30 + c.Intn(170)
	if p.Tier == "thorough" {
		nops = 60 + c.Intn(500)
	}
	w := []int{
		30 + c.Intn(40), // 0 set
		5 + c.Intn(25),  // 1 remove
		8,               // 2 read working
		6,               // 3 read version
		6 + c.Intn(8),   // 4 save
		c.Intn(4),       // 5 rollback
		c.Intn(4),       // 6 load version
		c.Intn(5),       // 7 delete versions to
		c.Intn(4),       // 8 reopen
		c.Intn(3),       // 9 crash in save (main line)
		c.Intn(3),       // 10 crash in delete
		c.Intn(3),       // 11 export/import
		3 + c.Intn(8),   // 12 proof
		c.Intn(3),       // 13 overwrite
		c.Intn(3),       // 14 save with injected write error
		c.Intn(3),       // 15 power loss while idle
		c.Intn(3),       // 16 crash-point enumeration
		c.Intn(4),       // 17 reads through store/iavl
	}
	fill := c.Intn(len(s.keys)/2 + 1)
	for i := 0; i < fill && !s.stop; i++ {
		s.opSet()
	}
	for i := 0; i < nops && !s.stop; i++ {
		switch c.Weighted(w) {
		case 0:
			s.opSet()
		case 1:
			s.opRemove()
		case 2:
			s.opReadWorking()
		case 3:
			s.opReadVersion()
		case 4:
			s.opSave()
		case 5:
			s.opRollback()
		case 6:
			s.opLoadVersion()
		case 7:
			s.opDeleteTo(false)
		case 8:
			s.opReopen()
		case 9:
			s.opCrashInSave()
		case 10:
			s.opDeleteTo(true)
		case 11:
			s.opExportImport()
		case 12:
			s.opProof()
			if !s.stop {
				s.opProof()
			}
		case 13:
			s.opOverwrite()
		case 14:
			s.opSaveWithError()
		case 15:
			s.opPowerLossIdle()
		case 16:
			s.opCrashEnum()
		case 17:
			s.opStoreView()
		}
		s.r.Steps++
	}
	if !s.stop {
		s.opReadVersion()
	}
	if !s.stop {
		s.opProof()
	}
	for _, k := range kernel.SortedKeys(s.w.mach.Counters) {
		s.r.Probes["db."+k] += s.w.mach.Counters[k]
	}
	s.r.Probes["versions_saved"] += int(s.st.latest)
	s.r.Probes["max_tree_size"] += len(s.working)
	if s.t != nil && s.t.ImmutableTree != nil {
		if s.t.Height() >= 4 {
			s.r.Probe("height>=4")
		}
		if s.t.Height() >= 8 {
			s.r.Probe("height>=8")
		}
	}
	f := s.r.Faults
	s.r.Nontrivial = s.st.latest >= 2 && (f["reopen"]+f["kill"]+f["power_loss"]+f["db_error_in_save"] > 0)
	s.r.Sample = map[string]any{"first_events": c.Log[:min(len(c.Log), 25)], "events": c.Events(), "versions": s.st.latest}
	return s.r
}
