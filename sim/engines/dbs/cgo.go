//go:build cgo

package dbs

import (
	dbm "github.com/gnolang/gno/tm2/pkg/db"
	"github.com/gnolang/gno/tm2/pkg/db/lmdbdb"
	"github.com/gnolang/gno/tm2/pkg/db/mdbxdb"
)

type cgoBackend struct {
	name string
	open func() (dbm.DB, error)
}

// cgoBackends: lmdb and mdbx open fine under the scratch dir with a small map
// (the production default is a 1 TB map).
func cgoBackends(dir string) []cgoBackend {
	return []cgoBackend{
		{"lmdbdb", func() (dbm.DB, error) { return lmdbdb.NewLMDBWithOptions("l", dir, 32<<20, 0) }},
		{"mdbxdb", func() (dbm.DB, error) { return mdbxdb.NewMDBXWithOptions("m", dir, 32<<20, 0) }},
	}
}
