package dbs

import (
	"os"
	"testing"

	"verif/sim/kernel"
)

func TestSim(t *testing.T) {
	if os.Getenv("VERIF_PROP") == "" {
		t.Skip("driven by /verif/check")
	}
	code := kernel.Main("dbs", map[string]kernel.Engine{
		"C29": runDBs,
	})
	if code != 0 {
		os.Exit(code)
	}
}
