// Engine dbs (property C29): one seeded history applied in lock-step to every
// tm2/pkg/db backend (memdb, goleveldb, pebbledb, boltdb, lmdbdb, mdbxdb), to
// the wrappers that implement dbm.DB (PrefixDB, CollectingDB, ImmutableDB,
// SnapshotDB) and to the simulated disk (simdb), and to an ordered-map model.
// Every result of every backend must equal the model's; the first diverging
// backend/op is reported (oracle id = what diverged, signature = backend).
//
// Fault: clean close + reopen of the file-backed backends at drawn points.
// Only logical results enter the event trace (no sizes, paths, timings), so the
// background compaction threads of leveldb/pebble cannot perturb it.
package dbs

import (
	"bytes"
	"fmt"
	"os"
	"runtime"
	"sort"

	dbm "github.com/gnolang/gno/tm2/pkg/db"
	"github.com/gnolang/gno/tm2/pkg/db/boltdb"
	"github.com/gnolang/gno/tm2/pkg/db/goleveldb"
	"github.com/gnolang/gno/tm2/pkg/db/memdb"
	"github.com/gnolang/gno/tm2/pkg/db/pebbledb"

	"github.com/cockroachdb/pebble"
	"github.com/syndtr/goleveldb/leveldb/opt"

	"verif/sim/kernel"
	"verif/sim/simdb"
)

// ---- backends --------------------------------------------------------------

type bk struct {
	name   string
	db     dbm.DB
	reopen func() (dbm.DB, error) // nil: memory-only (Close is a documented no-op or harmless)
	// before is run ahead of every operation that reads through anything but
	// Get/Has (CollectingDB documents that iterators and snapshots do not see
	// pending writes until the collector is drained).
	before   func() error
	readOnly *bk // a read-only view over another backend's data: writes are skipped
	out      bool
	snapSeen bool
	snapOK   bool
	snaps    map[int]dbm.Snapshot
	kept     []keptSlice
}

type keptSlice struct {
	what string
	got  []byte
	want []byte
}

type flags struct {
	emptyKeys     bool // nil / empty keys (nil key == empty key)
	emptyVals     bool // nil / empty values
	aliasGet      bool // scribble over slices returned by Get
	aliasIter     bool // scribble over slices returned by Iterator.Key/Value
	batchMisuse   bool // use a written / closed batch: must error
	invalidDomain bool // start >= end: the iterator must be invalid
	invalidIter   bool // Key() on an exhausted iterator must panic
	snapshots     bool
	reopen        bool
	roMutation    bool // mutating a read-only view must panic
}

type dsim struct {
	c    *kernel.Choices
	r    *kernel.Result
	p    kernel.Params
	prop string

	fl    flags
	bks   []*bk
	model map[string][]byte
	snapM map[int]map[string][]byte
	nsnap int

	dir    string
	valCtr int
	stop   bool
	known  map[string]bool

	// curEmpty: the operation in progress involves the nil/empty key. Several
	// engines cannot store it and map it onto an ordinary key ("nil", "\\x00"). Every
	// such operation is followed by a comparison of the whole content, and any
	// difference in content found during it is reported under one oracle id
	// (empty-key-mishandled; the specific oracle goes into the message) - the
	// backend then leaves the lock-step, so that the collision cannot show up
	// later under some unrelated oracle.
	curEmpty bool
}

// content oracles: "the data read differs from the model's".
var contentOracle = map[string]bool{
	"get-wrong-value": true, "get-nil-iff-absent": true, "has-wrong": true,
	"iterator-wrong-keys-forward": true, "iterator-wrong-keys-reverse": true, "iterator-wrong-value": true,
	"batch-write-wrong-state": true, "discarded-batch-took-effect": true, "batch-visible-before-write": true,
	"dead-batch-changed-store": true,
}

func nn(b []byte) []byte {
	if b == nil {
		return []byte{}
	}
	return b
}

// cl clones b preserving nil-ness: every backend gets its own slices.
func cl(b []byte) []byte {
	if b == nil {
		return nil
	}
	return append([]byte{}, b...)
}

func scribble(b []byte) {
	for i := range b {
		b[i] ^= 0x5a
	}
}

// try runs f and returns the panic value, if any.
func try(f func()) (p any) {
	defer func() { p = recover() }()
	f()
	return nil
}

// fail reports "backend b diverged". neutral: the backend's state is still
// equal to the model's afterwards. A violation listed in KNOWN_FINDINGS is
// recorded; the history then goes on (without that backend unless neutral).
func (s *dsim) fail(b *bk, oracle string, neutral bool, format string, args ...any) {
	msg := b.name + ": " + fmt.Sprintf(format, args...)
	if s.curEmpty && contentOracle[oracle] {
		msg = "[" + oracle + "] " + msg
		oracle = "empty-key-mishandled"
		neutral = false
	}
	v := &kernel.Violation{Property: s.prop, Oracle: oracle, Signature: b.name, Msg: msg}
	if s.p.IsKnown(v) != nil {
		if !s.known[oracle+"|"+b.name] {
			s.known[oracle+"|"+b.name] = true
			s.r.Known = append(s.r.Known, *v)
		}
		s.c.Event("known finding %s on %s (backend dropped: %v)", oracle, b.name, !neutral)
		if !neutral {
			s.drop(b)
		}
		return
	}
	if s.r.Violation == nil {
		s.r.Violation = v
	}
	s.stop = true
}

func (s *dsim) drop(b *bk) {
	b.out = true
	for _, v := range s.bks { // views over it go too
		if v.readOnly == b {
			v.out = true
		}
	}
}

func (s *dsim) each(f func(b *bk)) {
	for _, b := range s.bks {
		if !b.out && !s.stop {
			f(b)
		}
	}
}

func (s *dsim) writers(f func(b *bk)) {
	s.each(func(b *bk) {
		if b.readOnly == nil {
			f(b)
		}
	})
}

func (s *dsim) sortedModel(m map[string][]byte) []string {
	ks := make([]string, 0, len(m))
	for k := range m {
		ks = append(ks, k)
	}
	sort.Strings(ks)
	return ks
}

// ---- generators ------------------------------------------------------------

var alphabet = []byte{0x00, 'a', 'b', 0xff}

func (s *dsim) drawKey() []byte {
	c := s.c
	if s.fl.emptyKeys {
		switch c.Intn(12) {
		case 0:
			s.curEmpty = true
			return nil
		case 1:
			s.curEmpty = true
			return []byte{}
		case 2:
			return []byte("nil") // boltdb documents a collision of the empty key with this one
		}
	}
	if len(s.model) > 0 && c.Chance(1, 3) { // an existing key, or a neighbour of one
		ks := s.sortedModel(s.model)
		k := []byte(ks[c.Intn(len(ks))])
		switch c.Intn(4) {
		case 0:
			return append(k, 0x00) // immediate successor
		case 1:
			if len(k) > 1 {
				return k[:len(k)-1] // proper prefix
			}
		}
		if len(k) > 0 {
			return k
		}
		if s.fl.emptyKeys {
			s.curEmpty = true
			return k
		}
	}
	n := 1 + c.Intn(4)
	k := make([]byte, n)
	for i := range k {
		k[i] = alphabet[c.Intn(len(alphabet))]
	}
	return k
}

func (s *dsim) drawVal() []byte {
	c := s.c
	s.valCtr++
	if s.fl.emptyVals {
		switch c.Intn(8) {
		case 0:
			return nil
		case 1:
			return []byte{}
		}
	}
	switch c.Intn(10) {
	case 0:
		return bytes.Repeat([]byte{byte('A' + s.valCtr%26)}, 100+c.Intn(400))
	case 1:
		return bytes.Repeat([]byte{byte('a' + s.valCtr%26)}, 3000+c.Intn(3000))
	}
	return []byte(fmt.Sprintf("v%d", s.valCtr))
}

// drawBound: nil, empty, equal to a key, adjacent to a key, sharing a prefix.
func (s *dsim) drawBound() []byte {
	c := s.c
	switch c.Intn(6) {
	case 0:
		return nil
	case 1:
		if s.c.Bool() {
			return []byte{}
		}
		return []byte{0xff, 0xff, 0xff, 0xff, 0xff}
	}
	return s.drawKeyNonEmpty()
}

func (s *dsim) drawKeyNonEmpty() []byte {
	save := s.fl.emptyKeys
	s.fl.emptyKeys = false
	k := s.drawKey()
	s.fl.emptyKeys = save
	return k
}

func expectRange(ks []string, start, end []byte, reverse bool) []string {
	var out []string
	for _, k := range ks {
		if k >= string(start) && (end == nil || k < string(end)) {
			out = append(out, k)
		}
	}
	if reverse {
		for i, j := 0, len(out)-1; i < j; i, j = i+1, j-1 {
			out[i], out[j] = out[j], out[i]
		}
	}
	return out
}

func validDomain(start, end []byte) bool {
	return end == nil || bytes.Compare(start, end) < 0
}

// ---- point ops -------------------------------------------------------------

func (s *dsim) opSet(sync bool) {
	k, v := s.drawKey(), s.drawVal()
	s.c.Event("Set sync=%v key=%q(nil=%v) len(value)=%d(nil=%v)", sync, k, k == nil, len(v), v == nil)
	s.model[string(k)] = nn(cl(v))
	s.writers(func(b *bk) {
		kk, vv := cl(k), cl(v)
		var err error
		p := try(func() {
			if sync {
				err = b.db.SetSync(kk, vv)
			} else {
				err = b.db.Set(kk, vv)
			}
		})
		if p != nil || err != nil {
			s.fail(b, "set-error", false, "Set(%q,len %d) err=%v panic=%v", k, len(v), err, p)
			return
		}
		if !bytes.Equal(kk, k) || !bytes.Equal(vv, v) {
			s.fail(b, "set-modified-arguments", false, "Set(%q) modified the slices it was given", k)
			return
		}
	})
	s.r.Probe("sets")
}

func (s *dsim) opDelete(sync bool) {
	k := s.drawKey()
	_, had := s.model[string(k)]
	s.c.Event("Delete sync=%v key=%q(nil=%v) present=%v", sync, k, k == nil, had)
	s.writers(func(b *bk) {
		kk := cl(k)
		var err error
		p := try(func() {
			if sync {
				err = b.db.DeleteSync(kk)
			} else {
				err = b.db.Delete(kk)
			}
		})
		if p != nil || err != nil {
			s.fail(b, "delete-error", false, "Delete(%q) present=%v err=%v panic=%v", k, had, err, p)
			return
		}
		if !bytes.Equal(kk, k) {
			s.fail(b, "set-modified-arguments", false, "Delete(%q) modified the slice it was given", k)
		}
	})
	delete(s.model, string(k))
	if had {
		s.r.Probe("deletes_of_present_key")
	}
}

// getEquals: do b.Get(k) and b.Has(k) agree with the model on value and
// presence (no oracle fired; whether an empty value comes back nil is checked
// by checkGet only).
func (s *dsim) getEquals(b *bk, k []byte) bool {
	want, present := s.model[string(k)]
	var got []byte
	var err, herr error
	var has bool
	if try(func() { got, err = b.db.Get(cl(k)); has, herr = b.db.Has(cl(k)) }) != nil || err != nil || herr != nil {
		return false
	}
	return has == present && bytes.Equal(got, want) && (present || got == nil)
}

func (s *dsim) checkGet(b *bk, what string, rd interface {
	Get([]byte) ([]byte, error)
	Has([]byte) (bool, error)
}, m map[string][]byte, k []byte, keep bool) bool {
	want, present := m[string(k)]
	var got []byte
	var err error
	var has bool
	var herr error
	kk := cl(k)
	if p := try(func() { got, err = rd.Get(kk) }); p != nil || err != nil {
		s.fail(b, "get-error", true, "%sGet(%q) err=%v panic=%v", what, k, err, p)
		return false
	}
	if (got == nil) != !present {
		s.fail(b, "get-nil-iff-absent", true, "%sGet(%q) = %q (nil=%v) but the key is present=%v with value %q: 'Get returns nil iff key doesn't exist'", what, k, got, got == nil, present, want)
		return false
	}
	if !bytes.Equal(got, want) {
		s.fail(b, "get-wrong-value", false, "%sGet(%q) = %.60q, model %.60q (present=%v)", what, k, got, want, present)
		return false
	}
	if p := try(func() { has, herr = rd.Has(cl(k)) }); p != nil || herr != nil || has != present {
		s.fail(b, "has-wrong", true, "%sHas(%q) = %v err=%v panic=%v, model %v", what, k, has, herr, p, present)
		return false
	}
	if !bytes.Equal(kk, k) {
		s.fail(b, "set-modified-arguments", true, "%sGet(%q) modified the key slice", what, k)
		return false
	}
	if keep && len(got) > 0 && len(b.kept) < 12 {
		b.kept = append(b.kept, keptSlice{what: fmt.Sprintf("%sGet(%q)", what, k), got: got, want: cl(got)})
	}
	return true
}

func (s *dsim) opGet() {
	k := s.drawKey()
	_, present := s.model[string(k)]
	scr := s.fl.aliasGet && s.c.Bool()
	s.c.Event("Get key=%q(nil=%v) present=%v scribble=%v", k, k == nil, present, scr)
	s.each(func(b *bk) {
		if !s.checkGet(b, "", b.db, s.model, k, !scr) || !scr {
			return
		}
		got, _ := b.db.Get(cl(k))
		if len(got) == 0 {
			return
		}
		scribble(got)
		if !s.getEquals(b, k) {
			s.fail(b, "get-result-aliases-store", true, "overwriting the slice returned by Get(%q) changed what the next Get returns", k)
			s.resync(b)
		}
	})
	s.r.Probe("gets")
}

// opCheckKept: slices handed out earlier must still hold what they held.
func (s *dsim) opCheckKept() {
	s.c.Event("check slices returned earlier")
	s.each(func(b *bk) {
		for _, ks := range b.kept {
			if !bytes.Equal(ks.got, ks.want) {
				s.fail(b, "returned-slice-changed-later", true, "the slice returned by %s changed after later operations: now %.40q, was %.40q", ks.what, ks.got, ks.want)
				b.kept = nil
				return
			}
		}
	})
}

// ---- iteration -------------------------------------------------------------

type iterSource interface {
	Iterator(start, end []byte) (dbm.Iterator, error)
	ReverseIterator(start, end []byte) (dbm.Iterator, error)
}

// walk iterates [start,end) on src and compares with want. It returns false
// after having reported a divergence.
func (s *dsim) walk(b *bk, what string, src iterSource, m map[string][]byte, start, end []byte, reverse, scr bool, stopAfter int) bool {
	ks := s.sortedModel(m)
	want := expectRange(ks, start, end, reverse)
	name, dir := "Iterator", "forward"
	if reverse {
		name, dir = "ReverseIterator", "reverse"
	}
	desc := fmt.Sprintf("%s%s(%q nil=%v, %q nil=%v)", what, name, start, start == nil, end, end == nil)
	var it dbm.Iterator
	var err error
	ss, ee := cl(start), cl(end)
	if p := try(func() {
		if reverse {
			it, err = src.ReverseIterator(ss, ee)
		} else {
			it, err = src.Iterator(ss, ee)
		}
	}); p != nil || err != nil || it == nil {
		s.fail(b, "iterator-open-error", true, "%s: err=%v panic=%v", desc, err, p)
		return false
	}
	var got []string
	bad := ""
	p := try(func() {
		for n := 0; it.Valid(); it.Next() {
			k, v := it.Key(), it.Value()
			got = append(got, string(k))
			if mv, ok := m[string(k)]; bad == "" && (!ok || !bytes.Equal(mv, v)) {
				bad = fmt.Sprintf("value at %q is %.40q (nil=%v), model %.40q (present=%v)", k, v, v == nil, mv, ok)
			}
			if scr {
				scribble(k)
				scribble(v)
			} else if len(v) > 0 && len(b.kept) < 12 && n == 0 {
				b.kept = append(b.kept, keptSlice{what: desc + ".Value() at " + fmt.Sprintf("%q", got[len(got)-1]), got: v, want: cl(v)})
			}
			n++
			if n > len(ks)+3 || (stopAfter > 0 && n >= stopAfter) {
				break
			}
		}
	})
	exhausted := stopAfter == 0 || len(got) < stopAfter
	var ierr, cerr error
	var ds, de []byte
	stillValid := false
	invalidPanics := true
	p2 := try(func() {
		ierr = it.Error()
		ds, de = it.Domain()
		if exhausted {
			stillValid = it.Valid()
			if s.fl.invalidIter {
				invalidPanics = try(func() { it.Key() }) != nil
			}
		}
		cerr = it.Close()
	})
	if p != nil || p2 != nil {
		s.fail(b, "iterator-panic", true, "%s: panic %v %v after %d keys", desc, p, p2, len(got))
		return false
	}
	if stopAfter > 0 && len(want) > stopAfter {
		want = want[:stopAfter]
	}
	if fmt.Sprint(got) != fmt.Sprint(want) {
		s.fail(b, "iterator-wrong-keys-"+dir, true, "%s: got %d keys %.200q, model %d keys %.200q", desc, len(got), got, len(want), want)
		return false
	}
	if bad != "" {
		s.fail(b, "iterator-wrong-value", true, "%s: %s", desc, bad)
		return false
	}
	if ierr != nil || cerr != nil {
		s.fail(b, "iterator-error", true, "%s: Error()=%v Close()=%v", desc, ierr, cerr)
		return false
	}
	if stillValid {
		s.fail(b, "iterator-valid-after-end", true, "%s: Valid() is true again after it had returned false", desc)
		return false
	}
	if !invalidPanics {
		s.fail(b, "iterator-key-on-invalid-no-panic", true, "%s: Key() on the exhausted iterator did not panic", desc)
		return false
	}
	if !bytes.Equal(ds, start) || !bytes.Equal(de, end) {
		s.fail(b, "iterator-domain", true, "%s: Domain() = (%q,%q)", desc, ds, de)
		return false
	}
	if !bytes.Equal(ss, start) || !bytes.Equal(ee, end) {
		s.fail(b, "set-modified-arguments", true, "%s modified its bounds", desc)
		return false
	}
	return true
}

func (s *dsim) drawDomain() (start, end []byte) {
	for i := 0; i < 4; i++ {
		start, end = s.drawBound(), s.drawBound()
		if len(start) == 5 { // the far-end bound only makes sense as an end
			start, end = end, start
		}
		if end != nil && bytes.Compare(start, end) > 0 {
			start, end = end, start
		}
		if validDomain(start, end) {
			return
		}
	}
	return nil, nil
}

func (s *dsim) prep(b *bk) bool {
	if b.before != nil {
		if err := b.before(); err != nil {
			s.fail(b, "drain-error", false, "draining the collector: %v", err)
			return false
		}
	}
	return true
}

func (s *dsim) opIterate() {
	start, end := s.drawDomain()
	reverse := s.c.Bool()
	scr := s.fl.aliasIter && s.c.Chance(1, 3)
	stopAfter := 0
	if s.c.Chance(1, 6) {
		stopAfter = 1 + s.c.Intn(3) // abandon the iterator early
	}
	n := len(expectRange(s.sortedModel(s.model), start, end, reverse))
	s.c.Event("Iterate reverse=%v start=%q(nil=%v) end=%q(nil=%v) scribble=%v stopAfter=%d -> %d keys", reverse, start, start == nil, end, end == nil, scr, stopAfter, n)
	s.each(func(b *bk) {
		if !s.prep(b) {
			return
		}
		if scr && !s.fullCheckQuiet(b) { // baseline for the aliasing test
			s.fail(b, "iterator-wrong-keys-forward", false, "the content differs from the model's before the iteration")
			return
		}
		if !s.walk(b, "", b.db, s.model, start, end, reverse, scr, stopAfter) {
			if !b.out {
				s.resyncOrDrop(b)
			}
			return
		}
		if scr && !s.fullCheckQuiet(b) {
			s.fail(b, "iterator-result-aliases-store", true, "overwriting the slices returned by Key()/Value() changed the stored data ('the key/value returned should be a copy and thus safe for modification')")
			s.resyncOrDrop(b)
		}
	})
	s.r.Probe("iterations")
	if n == 0 {
		s.r.Probe("iterations_empty_result")
	}
}

// opInvalidDomain: "Start must be less than end, or the Iterator is invalid."
func (s *dsim) opInvalidDomain() {
	a, z := s.drawKeyNonEmpty(), s.drawKeyNonEmpty()
	if bytes.Compare(a, z) < 0 {
		a, z = z, a
	}
	if s.c.Chance(1, 4) {
		z = cl(a)
	}
	reverse := s.c.Bool()
	s.c.Event("Iterate over the invalid domain [%q,%q) reverse=%v", a, z, reverse)
	s.each(func(b *bk) {
		if !s.prep(b) {
			return
		}
		var it dbm.Iterator
		var err error
		valid := false
		p := try(func() {
			if reverse {
				it, err = b.db.ReverseIterator(cl(a), cl(z))
			} else {
				it, err = b.db.Iterator(cl(a), cl(z))
			}
			if err == nil && it != nil {
				valid = it.Valid()
				it.Close()
			}
		})
		if p != nil || valid {
			s.fail(b, "iterator-over-invalid-domain", true, "iterator over [%q,%q) reverse=%v: Valid()=%v panic=%v (start must be less than end, or the iterator is invalid)", a, z, reverse, valid, p)
		}
	})
	s.r.Probe("invalid_domains")
}

// fullCheckQuiet: whole content of b equals the model (no oracle fired).
func (s *dsim) fullCheckQuiet(b *bk) (ok bool) {
	if os.Getenv("VERIF_DEBUG") != "" {
		defer func() {
			if !ok {
				fmt.Fprintf(os.Stderr, "DEBUG fullCheckQuiet(%s) failed; model:\n", b.name)
				for _, k := range s.sortedModel(s.model) {
					fmt.Fprintf(os.Stderr, "   %q = %.20q\n", k, s.model[k])
				}
				it, _ := b.db.Iterator(nil, nil)
				for ; it.Valid(); it.Next() {
					fmt.Fprintf(os.Stderr, "   backend %q = %.20q\n", it.Key(), it.Value())
				}
				it.Close()
			}
		}()
	}
	if b.before != nil && b.before() != nil {
		return false
	}
	ks := s.sortedModel(s.model)
	i := 0
	good := true
	if try(func() {
		it, err := b.db.Iterator(nil, nil)
		if err != nil {
			good = false
			return
		}
		defer it.Close()
		for ; it.Valid(); it.Next() {
			if i >= len(ks) || string(it.Key()) != ks[i] || !bytes.Equal(it.Value(), s.model[ks[i]]) {
				good = false
				return
			}
			i++
		}
	}) != nil {
		return false
	}
	if !good || i != len(ks) {
		return false
	}
	for _, k := range ks {
		if !s.getEquals(b, []byte(k)) {
			return false
		}
	}
	return true
}

func (s *dsim) fullCheck(b *bk, why string) {
	if !s.prep(b) {
		return
	}
	if !s.walk(b, why+": ", b.db, s.model, nil, nil, false, false, 0) {
		return
	}
	if !s.walk(b, why+": ", b.db, s.model, nil, nil, true, false, 0) {
		return
	}
	for _, k := range s.sortedModel(s.model) {
		if !s.checkGet(b, why+": ", b.db, s.model, []byte(k), false) {
			return
		}
	}
}

// resync rewrites b's content from the model (after a known, state-damaging
// finding) so that the history can go on with this backend.
func (s *dsim) resync(b *bk) bool {
	if b.out || b.readOnly != nil {
		return !b.out
	}
	ok := true
	if try(func() {
		if b.before != nil && b.before() != nil {
			ok = false
			return
		}
		var extra [][]byte
		it, err := b.db.Iterator(nil, nil)
		if err != nil {
			ok = false
			return
		}
		for ; it.Valid(); it.Next() {
			if _, in := s.model[string(it.Key())]; !in {
				extra = append(extra, cl(it.Key()))
			}
		}
		it.Close()
		for _, k := range extra {
			if b.db.Delete(k) != nil {
				ok = false
			}
		}
		for _, k := range s.sortedModel(s.model) {
			if b.db.Set([]byte(k), cl(s.model[k])) != nil {
				ok = false
			}
		}
	}) != nil {
		ok = false
	}
	b.kept = nil
	for _, id := range s.snapIDs(b) { // its snapshots may share memory with what was damaged
		sn := b.snaps[id]
		delete(b.snaps, id)
		try(func() { sn.Close() })
	}
	if !ok || !s.fullCheckQuiet(b) {
		s.c.Event("%s could not be brought back in line: dropped", b.name)
		s.drop(b)
		return false
	}
	return true
}

// afterEmptyKeyOp: see curEmpty.
func (s *dsim) afterEmptyKeyOp() {
	if !s.curEmpty {
		return
	}
	s.each(func(b *bk) {
		if !s.fullCheckQuiet(b) {
			s.fail(b, "empty-key-mishandled", false, "after an operation on the nil/empty key the content differs from the model's (the empty key is stored under some ordinary key, or not at all)")
		}
	})
	s.r.Probe("ops_on_empty_key")
}

func (s *dsim) snapIDs(b *bk) []int {
	ids := make([]int, 0, len(b.snaps))
	for id := range b.snaps {
		ids = append(ids, id)
	}
	sort.Ints(ids)
	return ids
}

func (s *dsim) resyncOrDrop(b *bk) {
	if !s.stop {
		s.resync(b)
	}
}

// ---- batches ---------------------------------------------------------------

type bop struct {
	del  bool
	k, v []byte
}

func (s *dsim) opBatch() {
	c := s.c
	n := 1 + c.Intn(6)
	ops := make([]bop, n)
	for i := range ops {
		ops[i] = bop{del: c.Intn(3) == 0, k: s.drawKey()}
		if !ops[i].del {
			ops[i].v = s.drawVal()
		}
	}
	finish := c.Intn(4) // 0,1 Write  2 WriteSync  3 Close without writing
	sized := c.Bool()
	misuse := s.fl.batchMisuse && c.Bool()
	s.c.Event("Batch %d ops finish=%d sized=%v misuse-probe=%v first=%q", n, finish, sized, misuse, ops[0].k)
	written := finish != 3
	live := map[*bk]dbm.Batch{}
	s.writers(func(b *bk) {
		var bt dbm.Batch
		if p := try(func() {
			if sized {
				bt = b.db.NewBatchWithSize(64)
			} else {
				bt = b.db.NewBatch()
			}
		}); p != nil || bt == nil {
			s.fail(b, "batch-error", false, "NewBatch: %v", p)
			return
		}
		for _, o := range ops {
			kk, vv := cl(o.k), cl(o.v)
			var err error
			p := try(func() {
				if o.del {
					err = bt.Delete(kk)
				} else {
					err = bt.Set(kk, vv)
				}
			})
			if p != nil || err != nil {
				s.fail(b, "batch-error", false, "staging del=%v %q: err=%v panic=%v", o.del, o.k, err, p)
				return
			}
			if !bytes.Equal(kk, o.k) || !bytes.Equal(vv, o.v) {
				s.fail(b, "set-modified-arguments", false, "Batch.Set/Delete(%q) modified the slices it was given", o.k)
				return
			}
		}
		// staged ops are not visible before Write
		if !s.getEquals(b, ops[0].k) {
			s.fail(b, "batch-visible-before-write", false, "after staging (not writing) a batch, Get(%q) no longer returns the old state", ops[0].k)
			return
		}
		var sz int
		var err error
		if p := try(func() { sz, err = bt.GetByteSize() }); p != nil || err != nil || sz < 0 {
			s.fail(b, "batch-error", true, "GetByteSize on a live batch: %d err=%v panic=%v", sz, err, p)
		}
		p := try(func() {
			switch finish {
			case 0, 1:
				err = bt.Write()
			case 2:
				err = bt.WriteSync()
			}
		})
		if p != nil || err != nil {
			s.fail(b, "batch-error", false, "Write/WriteSync: err=%v panic=%v", err, p)
			return
		}
		live[b] = bt
	})
	if written {
		for _, o := range ops {
			if o.del {
				delete(s.model, string(o.k))
			} else {
				s.model[string(o.k)] = nn(cl(o.v))
			}
		}
		s.r.Probe("batches_written")
	} else {
		s.r.Probe("batches_discarded")
	}
	s.each(func(b *bk) {
		for _, o := range ops {
			if !s.getEquals(b, o.k) {
				switch {
				case !written:
					s.fail(b, "discarded-batch-took-effect", true, "a batch closed without Write changed key %q", o.k)
				default:
					s.fail(b, "batch-write-wrong-state", true, "after Write of a %d-op batch, key %q does not hold the last staged op's result", len(ops), o.k)
				}
				s.resyncOrDrop(b)
				return
			}
		}
	})
	s.writers(func(b *bk) {
		bt := live[b]
		if bt == nil {
			return
		}
		if misuse && written {
			s.probeDeadBatch(b, bt, "written", false)
		}
		var err error
		if p := try(func() { err = bt.Close() }); p != nil || err != nil {
			s.fail(b, "batch-error", true, "Close: err=%v panic=%v", err, p)
			return
		}
		if misuse && !b.out && !s.stop {
			s.probeDeadBatch(b, bt, "closed", true)
		}
	})
}

// probeDeadBatch: "Only Close() can be called after [Write], other methods
// will error" / "calls to other methods afterwards [after Close] will error".
// The probe stops at the first method that does not error, so that a lenient
// batch is never made to write anything.
func (s *dsim) probeDeadBatch(b *bk, bt dbm.Batch, state string, alsoClose bool) {
	type probe struct {
		name string
		f    func() error
	}
	probes := []probe{
		{"Set", func() error { return bt.Set([]byte("zz-dead"), []byte("x")) }},
		{"Delete", func() error { return bt.Delete([]byte("zz-dead")) }},
		{"GetByteSize", func() error { _, err := bt.GetByteSize(); return err }},
		{"Write", func() error { return bt.Write() }},
		{"WriteSync", func() error { return bt.WriteSync() }},
	}
	for _, pr := range probes {
		var err error
		p := try(func() { err = pr.f() })
		if p != nil {
			s.fail(b, "dead-batch-panics", true, "%s on a %s batch panicked: %v", pr.name, state, p)
			break
		}
		if err == nil {
			s.fail(b, "dead-batch-accepts-"+pr.name, true, "%s on a %s batch returned nil; the contract says it will error", pr.name, state)
			if b.name == "pebbledb" {
				// harness safety, not an oracle: pebble recycles closed batches through a
				// sync.Pool; make sure the one just touched is never handed to anybody
				// (two GC cycles empty the pool)
				runtime.GC()
				runtime.GC()
			}
			break
		}
	}
	if alsoClose && !b.out && !s.stop {
		var err error
		if p := try(func() { err = bt.Close() }); p != nil || err != nil {
			s.fail(b, "batch-close-not-idempotent", true, "second Close: err=%v panic=%v", err, p)
		}
	}
	if !b.out && !s.stop && !s.fullCheckQuiet(b) {
		s.fail(b, "dead-batch-changed-store", true, "using a %s batch changed the stored data", state)
		s.resyncOrDrop(b)
	}
}

// ---- snapshots -------------------------------------------------------------

func (s *dsim) opSnapshot() {
	if len(s.snapM) >= 2 {
		s.opSnapClose()
		return
	}
	id := s.nsnap
	s.nsnap++
	s.c.Event("NewSnapshot #%d over %d keys", id, len(s.model))
	m := make(map[string][]byte, len(s.model))
	for k, v := range s.model {
		m[k] = v
	}
	s.snapM[id] = m
	s.each(func(b *bk) {
		if !s.prep(b) {
			return
		}
		var sn dbm.Snapshot
		var err error
		if p := try(func() { sn, err = b.db.NewSnapshot() }); p != nil {
			s.fail(b, "snapshot-panic", true, "NewSnapshot panicked: %v", p)
			return
		}
		ok := err == nil
		if ok && sn == nil {
			s.fail(b, "snapshot-nil", true, "NewSnapshot returned (nil, nil)")
			return
		}
		if b.snapSeen && b.snapOK != ok {
			s.fail(b, "snapshot-support-inconsistent", true, "NewSnapshot err=%v now, but supported=%v earlier", err, b.snapOK)
			return
		}
		b.snapSeen, b.snapOK = true, ok
		if ok {
			b.snaps[id] = sn
		}
	})
	s.r.Probe("snapshots_taken")
}

func (s *dsim) liveSnap() (int, bool) {
	if len(s.snapM) == 0 {
		return 0, false
	}
	ids := make([]int, 0, len(s.snapM))
	for id := range s.snapM {
		ids = append(ids, id)
	}
	sort.Ints(ids)
	return ids[s.c.Intn(len(ids))], true
}

func (s *dsim) opSnapRead() {
	id, ok := s.liveSnap()
	if !ok {
		return
	}
	m := s.snapM[id]
	k := s.drawKey()
	start, end := s.drawDomain()
	reverse := s.c.Bool()
	viaDB := s.c.Bool()
	differs := fmt.Sprint(m) != fmt.Sprint(s.model)
	s.c.Event("read snapshot #%d key=%q [%q,%q) reverse=%v via SnapshotDB=%v store-has-moved-on=%v", id, k, start, end, reverse, viaDB, differs)
	s.each(func(b *bk) {
		sn := b.snaps[id]
		if sn == nil {
			return
		}
		what := fmt.Sprintf("snapshot #%d: ", id)
		var g interface {
			Get([]byte) ([]byte, error)
			Has([]byte) (bool, error)
		} = sn
		var src iterSource = sn
		if viaDB {
			sdb := dbm.NewSnapshotDB(sn)
			g, src = sdb, sdb
			what = fmt.Sprintf("SnapshotDB(snapshot #%d): ", id)
			if s.fl.roMutation {
				if try(func() { sdb.Set([]byte("zz"), []byte("x")) }) == nil {
					s.fail(b, "readonly-view-accepts-write", true, "SnapshotDB.Set did not panic")
					return
				}
			}
		}
		if !s.checkGet(b, what, g, m, k, true) {
			return
		}
		s.walk(b, what, src, m, start, end, reverse, false, 0)
	})
	if differs {
		s.r.Probe("snapshot_reads_after_later_writes")
	}
}

func (s *dsim) opSnapClose() {
	id, ok := s.liveSnap()
	if !ok {
		return
	}
	s.c.Event("close snapshot #%d", id)
	s.closeSnap(id)
}

func (s *dsim) closeSnap(id int) {
	delete(s.snapM, id)
	for _, b := range s.bks {
		if sn := b.snaps[id]; sn != nil {
			delete(b.snaps, id)
			var err error
			if p := try(func() { err = sn.Close() }); (p != nil || err != nil) && !b.out && !s.stop {
				s.fail(b, "snapshot-close-error", true, "Snapshot.Close: err=%v panic=%v", err, p)
			}
		}
	}
}

// ---- fault: clean close + reopen -------------------------------------------

func (s *dsim) opReopen() {
	ids := make([]int, 0, len(s.snapM))
	for id := range s.snapM {
		ids = append(ids, id)
	}
	sort.Ints(ids)
	for _, id := range ids {
		s.closeSnap(id)
	}
	s.c.Event("clean close + reopen of every backend")
	s.r.Fault("reopen")
	s.writers(func(b *bk) {
		if !s.prep(b) {
			return
		}
		var err error
		if p := try(func() { err = b.db.Close() }); p != nil || err != nil {
			s.fail(b, "close-error", false, "Close: err=%v panic=%v", err, p)
			return
		}
		if b.reopen != nil {
			var db dbm.DB
			if p := try(func() { db, err = b.reopen() }); p != nil || err != nil {
				s.fail(b, "reopen-error", false, "reopen after a clean close: err=%v panic=%v", err, p)
				return
			}
			b.db = db
			s.r.Probe("file_backed_reopens")
		}
		b.kept = nil
	})
	s.each(func(b *bk) { s.fullCheck(b, "after close+reopen") })
}

// ---- read-only views -------------------------------------------------------

func (s *dsim) opReadOnlyMutation() {
	s.c.Event("mutate the read-only views")
	s.each(func(b *bk) {
		if b.readOnly == nil {
			return
		}
		muts := []struct {
			name string
			f    func()
		}{
			{"Set", func() { b.db.Set([]byte("zz"), []byte("x")) }},
			{"SetSync", func() { b.db.SetSync([]byte("zz"), []byte("x")) }},
			{"Delete", func() { b.db.Delete([]byte("zz")) }},
			{"DeleteSync", func() { b.db.DeleteSync([]byte("zz")) }},
		}
		for _, mu := range muts {
			name, f := mu.name, mu.f
			if try(f) == nil {
				s.fail(b, "readonly-view-accepts-write", false, "%s did not panic", name)
				return
			}
		}
	})
}

// ---- setup -----------------------------------------------------------------

var prefixes = [][]byte{[]byte("p"), {'a', 0xff}, {0xff, 0xff}, {'k', 0x00}, {0xff}, {'a', 0xff, 0xff}}

func incr(p []byte) []byte { // smallest byte string greater than every string with prefix p (nil if none)
	q := cl(p)
	for i := len(q) - 1; i >= 0; i-- {
		if q[i] < 0xff {
			q[i]++
			return q[:i+1]
		}
	}
	return nil
}

func (s *dsim) setup() {
	c := s.c
	scratch := os.Getenv("VERIF_SCRATCH")
	if scratch == "" {
		scratch = "/dev/shm"
	}
	if err := os.MkdirAll(scratch, 0o755); err != nil {
		kernel.Harnessf("scratch dir: %v", err)
	}
	dir, err := os.MkdirTemp(scratch, "dbs-run-")
	if err != nil {
		kernel.Harnessf("scratch dir: %v", err)
	}
	s.dir = dir
	add := func(b *bk) *bk {
		b.snaps = map[int]dbm.Snapshot{}
		s.bks = append(s.bks, b)
		return b
	}
	add(&bk{name: "memdb", db: memdb.NewMemDB()})
	sim := add(&bk{name: "simdb", db: simdb.NewDisk("simdb", nil).Open()})
	file := func(name string, open func() (dbm.DB, error)) {
		db, err := open()
		if err != nil {
			kernel.Harnessf("opening %s in %s: %v", name, dir, err)
		}
		add(&bk{name: name, db: db, reopen: open})
	}
	// small write buffers: cheap to open, and the data moves through memtable
	// flushes and table files instead of sitting in one memtable
	file("goleveldb", func() (dbm.DB, error) {
		return goleveldb.NewGoLevelDBWithOpts("g", dir, &opt.Options{WriteBuffer: 32 << 10, BlockCacheCapacity: 256 << 10})
	})
	file("pebbledb", func() (dbm.DB, error) {
		return pebbledb.NewPebbleDBWithOpts("p", dir, &pebble.Options{MemTableSize: 128 << 10})
	})
	file("boltdb", func() (dbm.DB, error) { return boltdb.New("b", dir) })
	for _, cb := range cgoBackends(dir) {
		file(cb.name, cb.open)
	}

	// PrefixDB over a simulated disk that also holds keys just outside the prefix
	pfx := prefixes[c.Intn(len(prefixes))]
	under := simdb.NewDisk("under-prefix", nil).Open()
	sentinels := [][]byte{{}, pfx[:len(pfx)-1], {0xff, 0xff, 0xff, 0xff, 0xff, 0xff}}
	if len(pfx) > 1 {
		sentinels = append(sentinels, append(cl(pfx[:len(pfx)-1]), pfx[len(pfx)-1]-1, 0xff, 0xff))
	}
	if up := incr(pfx); up != nil {
		sentinels = append(sentinels, up, append(cl(up), 0x00))
	}
	for _, k := range sentinels {
		if !bytes.HasPrefix(k, pfx) {
			under.Set(k, []byte("outside-the-prefix"))
		}
	}
	add(&bk{name: "prefixdb(simdb)", db: dbm.NewPrefixDB(under, pfx)})

	// CollectingDB over a simulated disk; drained before anything but Get/Has
	real := simdb.NewDisk("under-collecting", nil).Open()
	col := dbm.NewBatchCollector()
	add(&bk{name: "collectingdb(simdb)", db: dbm.NewCollectingDB(real, col), before: func() error {
		bt := real.NewBatch()
		defer bt.Close()
		if err := col.Drain(bt); err != nil {
			return err
		}
		return bt.WriteSync()
	}})

	// read-only view
	add(&bk{name: "immutabledb(simdb)", db: dbm.NewImmutableDB(sim.db), readOnly: sim})
	s.c.Event("backends=%d prefix=%q flags=%+v", len(s.bks), pfx, s.fl)
}

func (s *dsim) teardown() {
	for _, b := range s.bks {
		for id, sn := range b.snaps {
			try(func() { sn.Close() })
			delete(b.snaps, id)
		}
		if b.readOnly == nil && b.reopen != nil {
			try(func() { b.db.Close() })
		}
	}
	if s.dir != "" {
		os.RemoveAll(s.dir)
	}
}

// ---- one run ---------------------------------------------------------------

func runDBs(c *kernel.Choices, p kernel.Params) (res *kernel.Result) {
	s := &dsim{c: c, r: kernel.NewResult(), p: p, prop: p.Property, model: map[string][]byte{}, snapM: map[int]map[string][]byte{}, known: map[string]bool{}}
	// swarm: each corner of the contract is exercised in about half of the runs
	s.fl = flags{
		emptyKeys: c.Bool(), emptyVals: c.Bool(), aliasGet: c.Bool(), aliasIter: c.Bool(),
		batchMisuse: c.Bool(), invalidDomain: c.Bool(), invalidIter: c.Bool(), snapshots: !c.Chance(1, 4), reopen: !c.Chance(1, 4), roMutation: c.Bool(),
	}
	defer s.teardown()
	s.setup()

	nops := 40 + c.Intn(160)
	if p.Tier == "thorough" {
		nops = 80 + c.Intn(320)
	}
	w := []int{
		20 + c.Intn(20), // 0 set
		4,               // 1 set sync
		6 + c.Intn(10),  // 2 delete
		2,               // 3 delete sync
		8 + c.Intn(8),   // 4 batch
		12,              // 5 get
		12 + c.Intn(8),  // 6 iterate
		2,               // 7 check kept slices
		0, 0, 0, 0, 0, 0,
	}
	if s.fl.snapshots {
		w[8], w[9], w[10] = 2, 5, 1 // take, read, close
	}
	if s.fl.reopen {
		w[11] = 1 + c.Intn(2)
	}
	if s.fl.invalidDomain {
		w[12] = 2
	}
	if s.fl.roMutation {
		w[13] = 1
	}
	for i := 0; i < nops && !s.stop; i++ {
		s.afterEmptyKeyOp()
		s.curEmpty = false
		switch c.Weighted(w) {
		case 0:
			s.opSet(false)
		case 1:
			s.opSet(true)
		case 2:
			s.opDelete(false)
		case 3:
			s.opDelete(true)
		case 4:
			s.opBatch()
		case 5:
			s.opGet()
		case 6:
			s.opIterate()
		case 7:
			s.opCheckKept()
		case 8:
			s.opSnapshot()
		case 9:
			s.opSnapRead()
		case 10:
			s.opSnapClose()
		case 11:
			s.opReopen()
		case 12:
			s.opInvalidDomain()
		case 13:
			s.opReadOnlyMutation()
		}
		s.r.Steps++
	}
	s.afterEmptyKeyOp()
	s.curEmpty = false
	if !s.stop {
		s.opCheckKept()
	}
	if !s.stop {
		s.c.Event("final comparison of every backend with the model (%d keys)", len(s.model))
		s.each(func(b *bk) { s.fullCheck(b, "end of run") })
	}
	live := 0
	for _, b := range s.bks {
		if !b.out {
			live++
		}
	}
	s.r.Probes["backends_in_lockstep_at_end"] += live
	s.r.Probes["backends_total"] += len(s.bks)
	s.r.Probes["final_keys"] += len(s.model)
	s.r.Nontrivial = s.r.Steps >= 20 && s.r.Faults["reopen"] > 0
	s.r.Sample = map[string]any{"first_events": c.Log[:min(len(c.Log), 25)], "events": c.Events(), "keys": len(s.model)}
	return s.r
}
