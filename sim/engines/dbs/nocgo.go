//go:build !cgo

package dbs

import dbm "github.com/gnolang/gno/tm2/pkg/db"

type cgoBackend struct {
	name string
	open func() (dbm.DB, error)
}

func cgoBackends(string) []cgoBackend { return nil }
