// Package kernel is the deterministic core shared by every engine: one seed →
// one choice tape → one exactly repeatable run; trace fingerprints; tape
// shrinking; the worker protocol spoken with the /verif/check driver.
package kernel

import (
	"crypto/sha256"
	"encoding/hex"
	"fmt"
	"hash"
	"strings"
)

// splitmix64: tiny, fully specified, no dependence on math/rand versions.
type splitmix struct{ s uint64 }

func (r *splitmix) next() uint64 {
	r.s += 0x9e3779b97f4a7c15
	z := r.s
	z = (z ^ (z >> 30)) * 0xbf58476d1ce4e5b9
	z = (z ^ (z >> 27)) * 0x94d049bb133111eb
	return z ^ (z >> 31)
}

// Choices is the only source of nondeterminism an engine may use.
//
// Explore mode draws from a PRNG seeded by the run seed. Replay mode reads the
// values from a tape; once the tape is exhausted every draw yields 0 (the
// simplest choice) — this is what makes tape shrinking (delete / zero / halve
// entries) well defined. In both modes the values actually returned are
// recorded, so the tape written to a replay file is always exact: replaying it
// never runs off the end.
type Choices struct {
	Seed   uint64
	rng    splitmix
	replay bool
	tape   []uint64
	pos    int
	rec    []uint64
	MaxLen int // hard cap on draws per run (runaway guard); 0 = 1<<20

	trace   hash.Hash
	nEvents uint64
	Log     []string // bounded human readable trace (first MaxLog events)
	MaxLog  int
}

func NewExplore(seed uint64) *Choices {
	c := &Choices{Seed: seed, trace: sha256.New(), MaxLog: 400}
	c.rng.s = seed*0x9e3779b97f4a7c15 + 0x1234567
	return c
}

func NewReplay(seed uint64, tape []uint64) *Choices {
	c := &Choices{Seed: seed, replay: true, tape: tape, trace: sha256.New(), MaxLog: 400}
	return c
}

// ErrTapeOverrun is panicked when a run draws more than MaxLen choices.
type ErrTapeOverrun struct{}

func (c *Choices) raw(bound uint64) uint64 {
	max := c.MaxLen
	if max == 0 {
		max = 1 << 20
	}
	if len(c.rec) >= max {
		panic(ErrTapeOverrun{})
	}
	var v uint64
	if c.replay {
		if c.pos < len(c.tape) {
			v = c.tape[c.pos]
		}
		c.pos++
	} else {
		v = c.rng.next()
	}
	if bound > 0 {
		v %= bound
	}
	c.rec = append(c.rec, v)
	return v
}

// Intn returns a value in [0,n). n<=1 returns 0 without consuming a choice.
func (c *Choices) Intn(n int) int {
	if n <= 1 {
		return 0
	}
	return int(c.raw(uint64(n)))
}

// Range returns a value in [lo,hi] inclusive.
func (c *Choices) Range(lo, hi int) int {
	if hi <= lo {
		return lo
	}
	return lo + c.Intn(hi-lo+1)
}

// Bool is true with probability num/den. The "simple" value 0 maps to false.
func (c *Choices) Chance(num, den int) bool {
	if num <= 0 {
		return false
	}
	if num >= den {
		return true
	}
	return c.Intn(den) >= den-num
}

func (c *Choices) Bool() bool { return c.Intn(2) == 1 }

func (c *Choices) Uint64() uint64 { return c.raw(0) }

// Bytes returns n bytes drawn from a small alphabet size (alpha<=256).
func (c *Choices) Bytes(n, alpha int) []byte {
	b := make([]byte, n)
	for i := range b {
		b[i] = byte(c.Intn(alpha))
	}
	return b
}

// Weighted picks an index with probability proportional to w[i]; index 0 is
// the simplest.
func (c *Choices) Weighted(w []int) int {
	tot := 0
	for _, x := range w {
		tot += x
	}
	if tot <= 0 {
		return 0
	}
	v := c.Intn(tot)
	for i, x := range w {
		if v < x {
			return i
		}
		v -= x
	}
	return len(w) - 1
}

// Tape returns the exact sequence of values consumed so far.
func (c *Choices) Tape() []uint64 { return append([]uint64(nil), c.rec...) }

// Event appends a simulator event to the run's trace (hashed for the
// fingerprint, and kept in text for the first MaxLog events). It never draws
// and never reads a clock.
func (c *Choices) Event(format string, args ...any) {
	s := fmt.Sprintf(format, args...)
	c.nEvents++
	fmt.Fprintf(c.trace, "%d:%s\n", c.nEvents, s)
	if len(c.Log) < c.MaxLog {
		c.Log = append(c.Log, s)
	}
}

func (c *Choices) Events() uint64 { return c.nEvents }

// Fingerprint is the SHA-256 of the trace so far.
func (c *Choices) Fingerprint() string {
	return hex.EncodeToString(c.trace.Sum(nil))[:32]
}

func (c *Choices) LogString() string { return strings.Join(c.Log, "\n") }
