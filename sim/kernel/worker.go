package kernel

import (
	"bufio"
	"encoding/json"
	"fmt"
	"os"
	"path/filepath"
	"runtime/debug"
	"sort"
	"strconv"
	"strings"
	"sync"
	"time"
)

// Violation is one oracle failure. Oracle is a stable id of the oracle that
// fired (the violation class used by the shrinker and the known-findings
// matcher); Signature is a normalised description with seeds/addresses
// abstracted (defaults to Oracle).
type Violation struct {
	Property  string `json:"property"`
	Oracle    string `json:"oracle"`
	Signature string `json:"signature,omitempty"`
	Msg       string `json:"msg"`
}

// class is what the shrinker must preserve. The signature is part of it: known findings are
// matched by (property, oracle, signature), so a shrink that drifted from one signature to
// another could turn a new violation into a listed one (or the reverse).
func (v *Violation) class() string { return v.Property + "/" + v.Oracle + "/" + v.Signature }

// Result is what an engine reports for one simulated run.
type Result struct {
	Violation  *Violation     `json:"violation,omitempty"`
	Known      []Violation    `json:"known,omitempty"` // matched KNOWN_FINDINGS entries (run continued)
	Faults     map[string]int `json:"faults,omitempty"`
	Probes     map[string]int `json:"probes,omitempty"`
	SimSeconds float64        `json:"sim_s,omitempty"`
	Steps      int            `json:"steps,omitempty"`
	Nontrivial bool           `json:"nontrivial"`
	Sample     any            `json:"sample,omitempty"`
	Inconcl    string         `json:"inconclusive,omitempty"`
}

func NewResult() *Result {
	return &Result{Faults: map[string]int{}, Probes: map[string]int{}}
}

func (r *Result) Fault(kind string)  { r.Faults[kind]++ }
func (r *Result) Probe(name string)  { r.Probes[name]++ }
func (r *Result) ProbeN(name string, n int) { r.Probes[name] += n }

func (r *Result) Fail(prop, oracle, format string, args ...any) {
	if r.Violation != nil {
		return
	}
	r.Violation = &Violation{Property: prop, Oracle: oracle, Signature: oracle, Msg: fmt.Sprintf(format, args...)}
}

// Params are the per-invocation knobs an engine sees.
type Params struct {
	Property string
	Tier     string
	Knobs    map[string]string
	Known    []KnownFinding
}

func (p Params) Knob(name, def string) string {
	if v, ok := p.Knobs[name]; ok {
		return v
	}
	return def
}

func (p Params) KnobInt(name string, def int) int {
	if v, ok := p.Knobs[name]; ok {
		n, err := strconv.Atoi(v)
		if err == nil {
			return n
		}
	}
	return def
}

// IsKnown reports whether a violation matches a committed known finding.
func (p Params) IsKnown(v *Violation) *KnownFinding {
	for i := range p.Known {
		k := &p.Known[i]
		if k.Status == "known" && k.Property == v.Property && k.Oracle == v.Oracle &&
			(k.Signature == "" || k.Signature == v.Signature) {
			return k
		}
	}
	return nil
}

type KnownFinding struct {
	Status    string `json:"status"`
	Property  string `json:"property"`
	Oracle    string `json:"oracle"`
	Signature string `json:"signature"`
	What      string `json:"what"`
	Commit    string `json:"commit,omitempty"`
}

// Engine runs one simulated execution; everything it decides comes from c.
type Engine func(c *Choices, p Params) *Result

// ReplayFile is the on-disk replay format.
type ReplayFile struct {
	Check     string            `json:"check"` // the check (VERIF_PROP) that was running; decides engine and workload
	Property  string            `json:"property"`
	Engine    string            `json:"engine"`
	Seed      uint64            `json:"seed"`
	Tier      string            `json:"tier"`
	Knobs     map[string]string `json:"knobs,omitempty"`
	Tape      []uint64          `json:"tape"`
	Oracle    string            `json:"oracle"`
	Signature string            `json:"signature"`
	Msg       string            `json:"msg"`
	Shrunk    bool              `json:"shrunk"`
	OrigLen   int               `json:"orig_tape_len"`
	Log       []string          `json:"trace"`
}

type runLine struct {
	Kind    string  `json:"kind"` // run | error | replay
	Seed    uint64  `json:"seed"`
	FP      string  `json:"fp"`
	Events  uint64  `json:"events"`
	TapeLen int     `json:"tape_len"`
	WallMS  float64 `json:"wall_ms"`
	*Result
	Replay     string   `json:"replay,omitempty"`
	ReplayFull string   `json:"replay_full,omitempty"`
	Err        string   `json:"err,omitempty"`
	Log        []string `json:"log,omitempty"`
}

// HarnessError aborts the worker with exit code 2 (never a VIOLATION).
type HarnessError struct{ Msg string }

func Harnessf(format string, args ...any) {
	panic(HarnessError{fmt.Sprintf(format, args...)})
}

// runOnce executes the engine under a panic guard. Unexpected panics are
// harness errors: engines must themselves recover the panics whose meaning
// they understand (crash sentinels, gno panics they provoke on purpose).
func runOnce(eng Engine, c *Choices, p Params) (res *Result, herr string) {
	defer func() {
		if r := recover(); r != nil {
			switch e := r.(type) {
			case ErrTapeOverrun:
				herr = "choice tape overrun (runaway run)"
			case HarnessError:
				herr = e.Msg
			default:
				herr = fmt.Sprintf("unexpected panic: %v\n%s", r, debug.Stack())
			}
		}
	}()
	res = eng(c, p)
	return
}

func env(name, def string) string {
	if v := os.Getenv(name); v != "" {
		return v
	}
	return def
}

func envInt(name string, def int) int {
	n, err := strconv.Atoi(env(name, ""))
	if err != nil {
		return def
	}
	return n
}

// SeedFor derives the per-run seed from the base seed and the run index.
func SeedFor(base uint64, i int) uint64 {
	s := splitmix{s: base ^ 0xa5a5a5a55a5a5a5a}
	s.next()
	s.s += uint64(i) * 0x9e3779b97f4a7c15
	return s.next() >> 1 // keep it positive in JSON consumers
}

var outMu sync.Mutex

// Main is called from each engine's TestSim. It never calls t.Fatal: the
// driver interprets the JSONL it writes and the exit code (0 fine, 2 harness).
func Main(engineName string, engines map[string]Engine) int {
	prop := env("VERIF_PROP", "")
	eng, ok := engines[prop]
	if !ok {
		eng, ok = engines["*"]
	}
	if !ok && env("VERIF_REPLAY", "") != "" {
		for _, k := range SortedKeys(engines) {
			eng, ok = engines[k], true
			break
		}
	}
	if !ok {
		fmt.Fprintf(os.Stderr, "engine %s does not serve property %q\n", engineName, prop)
		return 2
	}
	p := Params{Property: prop, Tier: env("VERIF_TIER", "quick"), Knobs: map[string]string{}}
	for _, kv := range strings.Split(env("VERIF_KNOBS", ""), ",") {
		if i := strings.IndexByte(kv, '='); i > 0 {
			p.Knobs[kv[:i]] = kv[i+1:]
		}
	}
	if kf := env("VERIF_KNOWN", ""); kf != "" {
		if f, err := os.Open(kf); err == nil {
			sc := bufio.NewScanner(f)
			sc.Buffer(make([]byte, 1<<20), 1<<20)
			for sc.Scan() {
				line := strings.TrimSpace(sc.Text())
				if line == "" || strings.HasPrefix(line, "#") {
					continue
				}
				var k KnownFinding
				if json.Unmarshal([]byte(line), &k) == nil {
					p.Known = append(p.Known, k)
				}
			}
			f.Close()
		}
	}

	var out *os.File = os.Stdout
	if path := env("VERIF_OUT", ""); path != "" {
		f, err := os.OpenFile(path, os.O_CREATE|os.O_WRONLY|os.O_APPEND, 0o644)
		if err != nil {
			fmt.Fprintln(os.Stderr, err)
			return 2
		}
		defer f.Close()
		out = f
	}
	emit := func(l *runLine) {
		b, err := json.Marshal(l)
		if err != nil {
			b, _ = json.Marshal(&runLine{Kind: "error", Seed: l.Seed, Err: "marshal: " + err.Error()})
		}
		outMu.Lock()
		out.Write(append(b, '\n'))
		outMu.Unlock()
	}

	runWall := time.Duration(envInt("VERIF_RUN_WALL_S", 300)) * time.Second
	var wdMu sync.Mutex
	var wdSeed uint64
	var wdStart time.Time
	go func() { // wall-clock watchdog: harness trouble, exit 2, never a violation
		for {
			time.Sleep(time.Second)
			wdMu.Lock()
			s, st := wdSeed, wdStart
			wdMu.Unlock()
			if !st.IsZero() && time.Since(st) > runWall {
				emit(&runLine{Kind: "error", Seed: s, Err: fmt.Sprintf("watchdog: run exceeded %v wall", runWall)})
				os.Exit(2)
			}
		}
	}()
	arm := func(seed uint64) {
		wdMu.Lock()
		wdSeed, wdStart = seed, time.Now()
		wdMu.Unlock()
	}
	disarm := func() {
		wdMu.Lock()
		wdStart = time.Time{}
		wdMu.Unlock()
	}

	// ---- replay mode -------------------------------------------------
	if rp := env("VERIF_REPLAY", ""); rp != "" {
		b, err := os.ReadFile(rp)
		if err != nil {
			fmt.Fprintln(os.Stderr, err)
			return 2
		}
		var rf ReplayFile
		if err := json.Unmarshal(b, &rf); err != nil {
			fmt.Fprintln(os.Stderr, err)
			return 2
		}
		p.Property = rf.Check
		if p.Property == "" {
			p.Property = rf.Property
		}
		if rf.Tier != "" {
			p.Tier = rf.Tier
		}
		if rf.Knobs != nil {
			p.Knobs = rf.Knobs
		}
		if e2, ok := engines[p.Property]; ok {
			eng = e2
		}
		c := NewReplay(rf.Seed, rf.Tape)
		arm(rf.Seed)
		t0 := time.Now()
		res, herr := runOnce(eng, c, p)
		disarm()
		l := &runLine{Kind: "replay", Seed: rf.Seed, FP: c.Fingerprint(), Events: c.Events(), TapeLen: len(c.rec),
			WallMS: float64(time.Since(t0).Microseconds()) / 1000, Result: res, Err: herr, Log: c.Log}
		emit(l)
		if herr != "" {
			return 2
		}
		return 0
	}

	// ---- explore mode ------------------------------------------------
	base := uint64(envInt("VERIF_SEED", 1))
	from := envInt("VERIF_RUN_FROM", 0)
	to := envInt("VERIF_RUN_TO", 10)
	stride := envInt("VERIF_RUN_STRIDE", 1)
	deadline := time.Now().Add(time.Duration(envInt("VERIF_DEADLINE_S", 3600)) * time.Second)
	detcheck := envInt("VERIF_DETCHECK", 0)
	maxViol := envInt("VERIF_MAX_VIOLATIONS", 1)
	replayDir := env("VERIF_REPLAY_DIR", "/verif/replays")
	shrinkBudget := time.Duration(envInt("VERIF_SHRINK_S", 60)) * time.Second
	samplesLeft := envInt("VERIF_SAMPLES", 2)

	nviol := 0
	code := 0
	for i := from; i < to; i += stride {
		if time.Now().After(deadline) {
			emit(&runLine{Kind: "deadline", Seed: uint64(i)})
			break
		}
		seed := SeedFor(base, i)
		if one := env("VERIF_ONE_SEED", ""); one != "" { // debugging aid: explore exactly this run seed
			u, err := strconv.ParseUint(one, 10, 64)
			if err != nil {
				panic(err)
			}
			seed, to = u, i
		}
		c := NewExplore(seed)
		arm(seed)
		t0 := time.Now()
		res, herr := runOnce(eng, c, p)
		disarm()
		l := &runLine{Kind: "run", Seed: seed, FP: c.Fingerprint(), Events: c.Events(), TapeLen: len(c.rec),
			WallMS: float64(time.Since(t0).Microseconds()) / 1000, Result: res, Err: herr}
		if herr != "" {
			l.Kind = "error"
			l.Log = tail(c.Log, 40)
			emit(l)
			code = 2
			break
		}
		if res.Sample != nil {
			if samplesLeft > 0 {
				samplesLeft--
			} else {
				res.Sample = nil
			}
		}
		if detcheck > 0 && (i-from)/stride < detcheck {
			c2 := NewExplore(seed)
			arm(seed)
			res2, herr2 := runOnce(eng, c2, p)
			disarm()
			if herr2 != "" || c2.Fingerprint() != c.Fingerprint() || (res2.Violation == nil) != (res.Violation == nil) {
				vs := func(r *Result) string {
					if r == nil || r.Violation == nil {
						return "no violation"
					}
					return r.Violation.Property + "/" + r.Violation.Oracle + ": " + r.Violation.Msg
				}
				emit(&runLine{Kind: "error", Seed: seed, Err: fmt.Sprintf("nondeterminism: fp %s vs %s (events %d vs %d) %s\nfirst diff: %s\nfirst execution: %s\nsecond execution: %s",
					c.Fingerprint(), c2.Fingerprint(), c.Events(), c2.Events(), herr2, firstDiff(c.Log, c2.Log), vs(res), vs(res2))})
				code = 2
				break
			}
		}
		if res.Violation != nil {
			v := res.Violation
			os.MkdirAll(replayDir, 0o755)
			full := &ReplayFile{Check: p.Property, Property: v.Property, Engine: engineName, Seed: seed, Tier: p.Tier, Knobs: p.Knobs,
				Tape: c.Tape(), Oracle: v.Oracle, Signature: v.Signature, Msg: v.Msg, OrigLen: len(c.rec), Log: c.Log}
			fullPath := filepath.Join(replayDir, fmt.Sprintf("%s-%d.full.json", v.Property, seed))
			writeJSON(fullPath, full)
			l.ReplayFull = fullPath
			// shrink
			best, bestC, bestRes := shrink(eng, p, seed, c.Tape(), v.class(), shrinkBudget, arm, disarm)
			if bestRes != nil {
				sv := bestRes.Violation
				min := &ReplayFile{Check: p.Property, Property: sv.Property, Engine: engineName, Seed: seed, Tier: p.Tier, Knobs: p.Knobs,
					Tape: best, Oracle: sv.Oracle, Signature: sv.Signature, Msg: sv.Msg, Shrunk: true, OrigLen: len(c.rec), Log: bestC.Log}
				minPath := filepath.Join(replayDir, fmt.Sprintf("%s-%d.json", v.Property, seed))
				writeJSON(minPath, min)
				l.Replay = minPath
			} else {
				l.Replay = fullPath
			}
			l.Log = tail(c.Log, 60)
			emit(l)
			nviol++
			if nviol >= maxViol {
				break
			}
			continue
		}
		emit(l)
	}
	return code
}

func tail(s []string, n int) []string {
	if len(s) <= n {
		return s
	}
	return s[len(s)-n:]
}

func firstDiff(a, b []string) string {
	for i := 0; i < len(a) && i < len(b); i++ {
		if a[i] != b[i] {
			return fmt.Sprintf("event %d: %q vs %q", i+1, a[i], b[i])
		}
	}
	return fmt.Sprintf("lengths %d vs %d (within logged prefix)", len(a), len(b))
}

func writeJSON(path string, v any) {
	b, _ := json.MarshalIndent(v, "", " ")
	os.WriteFile(path, b, 0o644)
}

// shrink minimises a failing tape while the same violation class persists:
// delete blocks, zero entries, halve entries. Bounded by wall budget.
func shrink(eng Engine, p Params, seed uint64, tape []uint64, class string, budget time.Duration,
	arm func(uint64), disarm func()) (best []uint64, bestC *Choices, bestRes *Result) {
	t0 := time.Now()
	try := func(t []uint64) (*Choices, *Result, bool) {
		c := NewReplay(seed, t)
		c.MaxLen = len(tape)*2 + 1000
		arm(seed)
		res, herr := runOnce(eng, c, p)
		disarm()
		if herr != "" || res == nil || res.Violation == nil || res.Violation.class() != class {
			return nil, nil, false
		}
		return c, res, true
	}
	// establish that replay of the full tape reproduces at all
	c0, r0, ok := try(tape)
	if !ok {
		return nil, nil, nil
	}
	best, bestC, bestRes = c0.Tape(), c0, r0
	improved := true
	for improved && time.Since(t0) < budget {
		improved = false
		// 1. delete blocks
		for bs := len(best) / 2; bs >= 1 && time.Since(t0) < budget; bs /= 2 {
			for i := 0; i+bs <= len(best) && time.Since(t0) < budget; {
				cand := append(append([]uint64(nil), best[:i]...), best[i+bs:]...)
				if c, r, ok := try(cand); ok && len(c.rec) <= len(best) {
					nb := c.Tape()
					if less(nb, best) {
						best, bestC, bestRes = nb, c, r
						improved = true
						continue
					}
				}
				i += bs
			}
		}
		// 2. zero, then halve entries
		for i := 0; i < len(best) && time.Since(t0) < budget; i++ {
			if best[i] == 0 {
				continue
			}
			for _, nv := range []uint64{0, best[i] / 2, best[i] - 1} {
				if nv >= best[i] {
					continue
				}
				cand := append([]uint64(nil), best...)
				cand[i] = nv
				if c, r, ok := try(cand); ok {
					nb := c.Tape()
					if less(nb, best) {
						best, bestC, bestRes = nb, c, r
						improved = true
						break
					}
				}
			}
		}
	}
	return
}

// less: shortlex order on tapes.
func less(a, b []uint64) bool {
	if len(a) != len(b) {
		return len(a) < len(b)
	}
	for i := range a {
		if a[i] != b[i] {
			return a[i] < b[i]
		}
	}
	return false
}

// SortedKeys is the only way harness code iterates a map.
func SortedKeys[V any](m map[string]V) []string {
	ks := make([]string, 0, len(m))
	for k := range m {
		ks = append(ks, k)
	}
	sort.Strings(ks)
	return ks
}
