// Command instrument prepares a `go build -overlay` file that compiles selected
// /repo packages with the scheduler-aware sync shim (DESIGN §2.6), without
// touching /repo.
//
// It parses the CURRENT sources of the listed package directories with
// go/parser and, by splicing text at AST positions (everything else, comments
// and //go: directives included, stays byte-identical and on the same lines):
//
//   - replaces sync.Mutex, sync.RWMutex, sync.WaitGroup, sync.Cond, sync.Once
//     and sync.NewCond by VerifMutex, ... (package-local copies of
//     verif/sim/coop/shimsrc, added to the package as zz_verif_syncshim.go);
//   - with -sleep, replaces time.Sleep by VerifSleep (a yield inside a task);
//   - inserts VerifYieldPoint("at:...") calls at anchors given BY NAME:
//     -yield-entry 'pkgdir:Func'            at entry of Func
//     -yield-before-call 'pkgdir:Func:Callee'  before each statement of Func that calls Callee
//     -yield-atomics                        before each statement that calls sync/atomic.*
//     Func is "Name", "T.Name" or "(*T).Name"; Callee is matched against the
//     last one or two components of the called expression ("SetNext",
//     "atomic.AddInt64", "mem.cache.Push" → "cache.Push" or "Push");
//   - with -register DIR, adds zz_verif_register.go to the engine package in
//     DIR: its init() hands the scheduler hooks to every instrumented package
//     (coop.RegisterInstrumented), so engine sources never mention generated
//     symbols and still compile without the overlay.
//
// A requested anchor that no longer exists, a listed package without any sync
// primitive, or a parse error make the command exit non-zero with a message:
// the check then reports harness trouble (exit 2), never a violation.
//
// -repo is where sources are READ (default $VERIF_INSTR_REPO or /repo), -as is
// the tree the build sees (where verif/sim's replace points, default /repo):
// overlay keys are paths under -as. With -repo pointing at a scratch worktree
// the check builds that worktree's versions of the instrumented packages
// (mutation testing) without editing go.mod.
package main

import (
	"bytes"
	"encoding/json"
	"flag"
	"fmt"
	"go/ast"
	"go/parser"
	"go/token"
	"os"
	"path/filepath"
	"sort"
	"strings"

	"verif/sim/coop/shimsrc"
)

type multi []string

func (m *multi) String() string     { return strings.Join(*m, ",") }
func (m *multi) Set(s string) error { *m = append(*m, s); return nil }

func die(format string, args ...any) {
	fmt.Fprintf(os.Stderr, "instrument: "+format+"\n", args...)
	os.Exit(1)
}

var shimTypes = map[string]string{
	"Mutex":     "VerifMutex",
	"RWMutex":   "VerifRWMutex",
	"WaitGroup": "VerifWaitGroup",
	"Cond":      "VerifCond",
	"Once":      "VerifOnce",
	"NewCond":   "VerifNewCond",
}

type edit struct {
	at, end int // byte offsets; at==end is an insertion
	text    string
}

type anchor struct {
	pkg, fn, callee string
	hits            int
}

type fileReport struct {
	File     string         `json:"file"`
	Replaced map[string]int `json:"replaced,omitempty"`
	Yields   []string       `json:"yields,omitempty"`
}

type report struct {
	Repo     string       `json:"repo"`
	As       string       `json:"as"`
	Packages []string     `json:"packages"`
	Files    []fileReport `json:"files"`
	Anchors  []string     `json:"anchors"`
}

func main() {
	var pkgs, yEntry, yCall multi
	envRepo := os.Getenv("VERIF_INSTR_REPO")
	if envRepo == "" {
		envRepo = "/repo"
	}
	repo := flag.String("repo", envRepo, "tree whose sources are read (default $VERIF_INSTR_REPO or /repo)")
	as := flag.String("as", "/repo", "tree the build sees; overlay keys are paths under it")
	out := flag.String("out", "", "output directory (wiped first)")
	register := flag.String("register", "", "engine package directory that gets zz_verif_register.go")
	sleep := flag.Bool("sleep", false, "rewrite time.Sleep to VerifSleep")
	yAtomics := flag.Bool("yield-atomics", false, "yield before statements calling sync/atomic functions")
	flag.Var(&pkgs, "pkg", "package directory relative to the repo root (repeatable)")
	flag.Var(&yEntry, "yield-entry", "pkgdir:Func (repeatable)")
	flag.Var(&yCall, "yield-before-call", "pkgdir:Func:Callee (repeatable)")
	flag.Parse()
	if *out == "" || len(pkgs) == 0 {
		die("usage: instrument -out DIR -pkg tm2/pkg/clist [-pkg ...] [-register ENGINE_DIR] [-repo /repo] [-as /repo] [-sleep] [-yield-atomics] [-yield-entry p:F] [-yield-before-call p:F:G]")
	}
	absOut, err := filepath.Abs(*out)
	if err != nil {
		die("%v", err)
	}
	if !strings.Contains(absOut, "/.build/") && !strings.HasPrefix(absOut, "/dev/shm/") && !strings.HasPrefix(absOut, os.TempDir()) {
		die("refusing to wipe %s (expected a directory under .build/ or /dev/shm)", absOut)
	}
	os.RemoveAll(absOut)
	if err := os.MkdirAll(absOut, 0o755); err != nil {
		die("%v", err)
	}
	modPath := modulePath(filepath.Join(*repo, "go.mod"))

	var anchors []*anchor
	for _, s := range yEntry {
		p := strings.SplitN(s, ":", 2)
		if len(p) != 2 {
			die("bad -yield-entry %q", s)
		}
		anchors = append(anchors, &anchor{pkg: filepath.Clean(p[0]), fn: p[1]})
	}
	for _, s := range yCall {
		p := strings.SplitN(s, ":", 3)
		if len(p) != 3 {
			die("bad -yield-before-call %q", s)
		}
		anchors = append(anchors, &anchor{pkg: filepath.Clean(p[0]), fn: p[1], callee: p[2]})
	}
	for _, a := range anchors {
		ok := false
		for _, p := range pkgs {
			if filepath.Clean(p) == a.pkg {
				ok = true
			}
		}
		if !ok {
			die("anchor %s:%s refers to package %s which is not listed with -pkg", a.pkg, a.fn, a.pkg)
		}
	}

	overlay := map[string]string{}
	rep := report{Repo: *repo, As: *as}
	type regEntry struct{ importPath, alias string }
	var regs []regEntry

	for pi, rel := range pkgs {
		rel = filepath.Clean(rel)
		srcDir := filepath.Join(*repo, rel)
		ents, err := os.ReadDir(srcDir)
		if err != nil {
			die("package %s: %v", rel, err)
		}
		pkgName := ""
		total := 0
		dstDir := filepath.Join(absOut, rel)
		if err := os.MkdirAll(dstDir, 0o755); err != nil {
			die("%v", err)
		}
		for _, e := range ents {
			n := e.Name()
			if e.IsDir() || !strings.HasSuffix(n, ".go") || strings.HasSuffix(n, "_test.go") {
				continue
			}
			if n == "zz_verif_syncshim.go" {
				die("package %s already contains %s", rel, n)
			}
			src, err := os.ReadFile(filepath.Join(srcDir, n))
			if err != nil {
				die("%v", err)
			}
			res, fr, name := rewriteFile(filepath.Join(srcDir, n), src, rel, anchors, *sleep, *yAtomics)
			if pkgName == "" {
				pkgName = name
			} else if name != pkgName {
				die("package %s: files declare packages %s and %s", rel, pkgName, name)
			}
			changed := !bytes.Equal(res, src)
			for _, c := range fr.Replaced {
				total += c
			}
			if !changed && *repo == *as {
				continue // build reads the original
			}
			dst := filepath.Join(dstDir, n)
			if err := os.WriteFile(dst, res, 0o644); err != nil {
				die("%v", err)
			}
			overlay[filepath.Join(*as, rel, n)] = dst
			if changed {
				fr.File = filepath.Join(rel, n)
				rep.Files = append(rep.Files, fr)
			}
		}
		if pkgName == "" {
			die("package %s: no Go files", rel)
		}
		if total == 0 {
			die("package %s: no sync.Mutex/RWMutex/WaitGroup/Cond/Once found — nothing to instrument (was the package rewritten?)", rel)
		}
		shim := strings.Replace(shimsrc.Source, "\npackage shimsrc\n", "\npackage "+pkgName+"\n", 1)
		if shim == shimsrc.Source {
			die("shim template: package clause not found")
		}
		shim = "// Code generated by /verif/sim/cmd/instrument from verif/sim/coop/shimsrc/shim.go. DO NOT EDIT.\n\n" + shim
		dst := filepath.Join(dstDir, "zz_verif_syncshim.go")
		if err := os.WriteFile(dst, []byte(shim), 0o644); err != nil {
			die("%v", err)
		}
		overlay[filepath.Join(*as, rel, "zz_verif_syncshim.go")] = dst
		regs = append(regs, regEntry{importPath: modPath + "/" + filepath.ToSlash(rel), alias: fmt.Sprintf("p%d", pi)})
		rep.Packages = append(rep.Packages, modPath+"/"+filepath.ToSlash(rel))
	}

	for _, a := range anchors {
		desc := a.pkg + ":" + a.fn
		if a.callee != "" {
			desc += ":" + a.callee
		}
		if a.hits == 0 {
			die("anchor %s not found in the current sources of %s (function or call renamed/removed): refusing to build a check that silently lost a yield point", desc, filepath.Join(*repo, a.pkg))
		}
		rep.Anchors = append(rep.Anchors, fmt.Sprintf("%s (%d sites)", desc, a.hits))
	}

	if *register != "" {
		engDir, err := filepath.Abs(*register)
		if err != nil {
			die("%v", err)
		}
		engPkg := packageNameOfDir(engDir)
		var b strings.Builder
		b.WriteString("// Code generated by /verif/sim/cmd/instrument. DO NOT EDIT.\n\n")
		fmt.Fprintf(&b, "package %s\n\nimport (\n\t\"verif/sim/coop\"\n\n", engPkg)
		for _, r := range regs {
			fmt.Fprintf(&b, "\t%s %q\n", r.alias, r.importPath)
		}
		b.WriteString(")\n\nfunc init() {\n")
		for _, r := range regs {
			fmt.Fprintf(&b, "\tcoop.RegisterInstrumented(%q, %s.VerifSetHooks)\n", r.importPath, r.alias)
		}
		b.WriteString("}\n")
		dst := filepath.Join(absOut, "zz_verif_register.go")
		if err := os.WriteFile(dst, []byte(b.String()), 0o644); err != nil {
			die("%v", err)
		}
		overlay[filepath.Join(engDir, "zz_verif_register.go")] = dst
	}

	ob, _ := json.MarshalIndent(map[string]any{"Replace": overlay}, "", " ")
	if err := os.WriteFile(filepath.Join(absOut, "overlay.json"), ob, 0o644); err != nil {
		die("%v", err)
	}
	sort.Slice(rep.Files, func(i, j int) bool { return rep.Files[i].File < rep.Files[j].File })
	rb, _ := json.MarshalIndent(rep, "", " ")
	os.WriteFile(filepath.Join(absOut, "report.json"), rb, 0o644)
	fmt.Printf("instrument: %d packages, %d files rewritten, %d anchors, overlay %s\n", len(rep.Packages), len(rep.Files), len(anchors), filepath.Join(absOut, "overlay.json"))
}

func modulePath(gomod string) string {
	b, err := os.ReadFile(gomod)
	if err != nil {
		die("%v", err)
	}
	for _, l := range strings.Split(string(b), "\n") {
		l = strings.TrimSpace(l)
		if strings.HasPrefix(l, "module ") {
			return strings.TrimSpace(strings.TrimPrefix(l, "module "))
		}
	}
	die("%s: no module line", gomod)
	return ""
}

func packageNameOfDir(dir string) string {
	ents, err := os.ReadDir(dir)
	if err != nil {
		die("-register: %v", err)
	}
	for _, e := range ents {
		n := e.Name()
		if e.IsDir() || !strings.HasSuffix(n, ".go") || strings.HasPrefix(n, "zz_verif_") {
			continue
		}
		f, err := parser.ParseFile(token.NewFileSet(), filepath.Join(dir, n), nil, parser.PackageClauseOnly)
		if err != nil {
			die("-register: %v", err)
		}
		return strings.TrimSuffix(f.Name.Name, "_test")
	}
	die("-register: no Go files in %s", dir)
	return ""
}

// importName returns the local name under which path is imported ("" if not).
func importName(f *ast.File, path, def string) (string, *ast.ImportSpec) {
	for _, is := range f.Imports {
		if strings.Trim(is.Path.Value, "`\"") == path {
			if is.Name != nil {
				return is.Name.Name, is
			}
			return def, is
		}
	}
	return "", nil
}

func funcName(fd *ast.FuncDecl) (full, short string) {
	if fd.Recv == nil || len(fd.Recv.List) == 0 {
		return fd.Name.Name, fd.Name.Name
	}
	t := fd.Recv.List[0].Type
	ptr := false
	if s, ok := t.(*ast.StarExpr); ok {
		ptr, t = true, s.X
	}
	switch x := t.(type) {
	case *ast.IndexExpr:
		t = x.X
	case *ast.IndexListExpr:
		t = x.X
	}
	tn := "?"
	if id, ok := t.(*ast.Ident); ok {
		tn = id.Name
	}
	short = tn + "." + fd.Name.Name
	if ptr {
		return "(*" + tn + ")." + fd.Name.Name, short
	}
	return short, short
}

// calleeNames: "a.b.c.F" → ["a.b.c.F", "c.F", "F"].
func calleeNames(e ast.Expr) []string {
	var parts []string
	for {
		switch x := e.(type) {
		case *ast.SelectorExpr:
			parts = append([]string{x.Sel.Name}, parts...)
			e = x.X
			continue
		case *ast.Ident:
			parts = append([]string{x.Name}, parts...)
		case *ast.IndexExpr: // generic instantiation F[T](...)
			e = x.X
			continue
		case *ast.ParenExpr:
			e = x.X
			continue
		default:
			// call on a call result etc.: keep what we have
		}
		break
	}
	if len(parts) == 0 {
		return nil
	}
	names := []string{parts[len(parts)-1]}
	if len(parts) >= 2 {
		names = append(names, parts[len(parts)-2]+"."+parts[len(parts)-1])
	}
	if len(parts) > 2 {
		names = append(names, strings.Join(parts, "."))
	}
	return names
}

func rewriteFile(path string, src []byte, rel string, anchors []*anchor, sleep, yAtomics bool) ([]byte, fileReport, string) {
	fset := token.NewFileSet()
	f, err := parser.ParseFile(fset, path, src, parser.ParseComments)
	if err != nil {
		die("parse %s: %v", path, err)
	}
	tf := fset.File(f.Pos())
	off := func(p token.Pos) int { return tf.Offset(p) }
	fr := fileReport{Replaced: map[string]int{}}
	var edits []edit

	syncName, syncSpec := importName(f, "sync", "sync")
	timeName, timeSpec := importName(f, "time", "time")
	atomicName, _ := importName(f, "sync/atomic", "atomic")
	if syncName == "_" || syncName == "." {
		syncName = ""
	}

	syncLeft, timeLeft := 0, 0
	ast.Inspect(f, func(n ast.Node) bool {
		se, ok := n.(*ast.SelectorExpr)
		if !ok {
			return true
		}
		id, ok := se.X.(*ast.Ident)
		if !ok || id.Obj != nil {
			return true
		}
		switch {
		case syncName != "" && id.Name == syncName:
			if nn, ok := shimTypes[se.Sel.Name]; ok {
				edits = append(edits, edit{off(se.Pos()), off(se.End()), nn})
				fr.Replaced["sync."+se.Sel.Name]++
			} else {
				syncLeft++
			}
		case timeName != "" && id.Name == timeName:
			if sleep && se.Sel.Name == "Sleep" {
				edits = append(edits, edit{off(se.Pos()), off(se.End()), "VerifSleep"})
				fr.Replaced["time.Sleep"]++
			} else {
				timeLeft++
			}
		}
		return true
	})
	blank := func(is *ast.ImportSpec) {
		if is.Name != nil {
			edits = append(edits, edit{off(is.Name.Pos()), off(is.Name.End()), "_"})
		} else {
			edits = append(edits, edit{off(is.Path.Pos()), off(is.Path.Pos()), "_ "})
		}
	}
	nSync := 0
	for k, c := range fr.Replaced {
		if strings.HasPrefix(k, "sync.") {
			nSync += c
		}
	}
	if syncSpec != nil && nSync > 0 && syncLeft == 0 {
		blank(syncSpec)
	}
	if timeSpec != nil && fr.Replaced["time.Sleep"] > 0 && timeLeft == 0 {
		blank(timeSpec)
	}

	// yield points
	inserted := map[int]bool{}
	insert := func(at int, site string) {
		if inserted[at] {
			return
		}
		inserted[at] = true
		edits = append(edits, edit{at, at, fmt.Sprintf("VerifYieldPoint(%q); ", site)})
		fr.Yields = append(fr.Yields, site)
	}
	for _, d := range f.Decls {
		fd, ok := d.(*ast.FuncDecl)
		if !ok || fd.Body == nil {
			continue
		}
		full, short := funcName(fd)
		var here []*anchor
		for _, a := range anchors {
			if a.pkg == rel && (a.fn == full || a.fn == short) {
				here = append(here, a)
			}
		}
		for _, a := range here {
			if a.callee == "" {
				a.hits++
				edits = append(edits, edit{off(fd.Body.Lbrace) + 1, off(fd.Body.Lbrace) + 1, fmt.Sprintf(" VerifYieldPoint(%q);", "at:"+full)})
				fr.Yields = append(fr.Yields, "at:"+full)
			}
		}
		needCalls := yAtomics && atomicName != ""
		for _, a := range here {
			if a.callee != "" {
				needCalls = true
			}
		}
		if !needCalls {
			continue
		}
		// walk with a stack so that the enclosing list statement of each call is known
		var stack []ast.Node
		ast.Inspect(fd.Body, func(n ast.Node) bool {
			if n == nil {
				stack = stack[:len(stack)-1]
				return true
			}
			stack = append(stack, n)
			ce, ok := n.(*ast.CallExpr)
			if !ok {
				return true
			}
			names := calleeNames(ce.Fun)
			var sites []string
			for _, a := range here {
				if a.callee == "" {
					continue
				}
				for _, nm := range names {
					if nm == a.callee {
						a.hits++
						sites = append(sites, "at:"+full+">"+a.callee)
						break
					}
				}
			}
			if yAtomics && atomicName != "" {
				if se, ok := ce.Fun.(*ast.SelectorExpr); ok {
					if id, ok := se.X.(*ast.Ident); ok && id.Obj == nil && id.Name == atomicName {
						sites = append(sites, "at:"+full+">atomic."+se.Sel.Name)
					}
				}
			}
			if len(sites) == 0 {
				return true
			}
			// innermost statement that is a direct member of a statement list
			for i := len(stack) - 1; i >= 1; i-- {
				st, ok := stack[i].(ast.Stmt)
				if !ok {
					continue
				}
				inList := false
				switch p := stack[i-1].(type) {
				case *ast.BlockStmt:
					inList = true
				case *ast.CaseClause:
					for _, b := range p.Body {
						if b == st {
							inList = true
						}
					}
				case *ast.CommClause:
					for _, b := range p.Body {
						if b == st {
							inList = true
						}
					}
				case *ast.LabeledStmt:
					continue // insert before the label's parent position instead
				}
				if inList {
					insert(off(st.Pos()), sites[0])
					break
				}
			}
			return true
		})
	}

	if len(edits) == 0 {
		return src, fr, f.Name.Name
	}
	sort.SliceStable(edits, func(i, j int) bool { return edits[i].at < edits[j].at })
	var out bytes.Buffer
	pos := 0
	for _, e := range edits {
		if e.at < pos {
			die("%s: overlapping edits at offset %d", path, e.at)
		}
		out.Write(src[pos:e.at])
		out.WriteString(e.text)
		pos = e.end
	}
	out.Write(src[pos:])
	// the result must still parse
	if _, err := parser.ParseFile(token.NewFileSet(), path, out.Bytes(), 0); err != nil {
		die("%s: rewritten file does not parse: %v", path, err)
	}
	return out.Bytes(), fr, f.Name.Name
}
