module verif/sim

go 1.25.9

require (
	github.com/anishathalye/porcupine v1.3.0
	github.com/cockroachdb/pebble v1.1.5
	github.com/cosmos/ics23/go v0.11.0
	github.com/gnolang/gno v0.0.0
	github.com/syndtr/goleveldb v1.0.1-0.20210819022825-2ae1ddf74ef7
	golang.org/x/crypto v0.53.0
	pgregory.net/rapid v1.3.0
)

require (
	github.com/DataDog/zstd v1.4.5 // indirect
	github.com/beorn7/perks v1.0.1 // indirect
	github.com/bits-and-blooms/bitset v1.24.4 // indirect
	github.com/bmatsuo/lmdb-go v1.8.0 // indirect
	github.com/btcsuite/btcd/btcec/v2 v2.5.0 // indirect
	github.com/btcsuite/btcd/btcutil v1.2.0 // indirect
	github.com/cenkalti/backoff/v5 v5.0.3 // indirect
	github.com/cespare/xxhash/v2 v2.3.0 // indirect
	github.com/cockroachdb/apd/v3 v3.2.3 // indirect
	github.com/cockroachdb/errors v1.11.3 // indirect
	github.com/cockroachdb/fifo v0.0.0-20240606204812-0bbfbd93a7ce // indirect
	github.com/cockroachdb/logtags v0.0.0-20230118201751-21c54148d20b // indirect
	github.com/cockroachdb/redact v1.1.5 // indirect
	github.com/cockroachdb/tokenbucket v0.0.0-20230807174530-cc333fc44b06 // indirect
	github.com/consensys/gnark-crypto v0.20.1 // indirect
	github.com/cosmos/gogoproto v1.7.0 // indirect
	github.com/davecgh/go-spew v1.1.2-0.20180830191138-d8f796af33cc // indirect
	github.com/decred/dcrd/dcrec/secp256k1/v4 v4.4.1 // indirect
	github.com/dgraph-io/ristretto/v2 v2.4.0 // indirect
	github.com/dustin/go-humanize v1.0.1 // indirect
	github.com/emicklei/dot v1.11.0 // indirect
	github.com/erigontech/mdbx-go v0.40.1 // indirect
	github.com/getsentry/sentry-go v0.35.0 // indirect
	github.com/go-logr/logr v1.4.3 // indirect
	github.com/go-logr/stdr v1.2.2 // indirect
	github.com/gofrs/flock v0.13.0 // indirect
	github.com/gogo/protobuf v1.3.2 // indirect
	github.com/golang/snappy v0.0.4 // indirect
	github.com/google/go-cmp v0.7.0 // indirect
	github.com/google/uuid v1.6.0 // indirect
	github.com/gorilla/websocket v1.5.3 // indirect
	github.com/grpc-ecosystem/grpc-gateway/v2 v2.29.0 // indirect
	github.com/gtank/merlin v0.1.1 // indirect
	github.com/hashicorp/golang-lru/v2 v2.0.7 // indirect
	github.com/kr/pretty v0.3.1 // indirect
	github.com/kr/text v0.2.0 // indirect
	github.com/libp2p/go-buffer-pool v0.1.0 // indirect
	github.com/mimoo/StrobeGo v0.0.0-20181016162300-f8f6d4d2b643 // indirect
	github.com/munnerz/goautoneg v0.0.0-20191010083416-a7dc8b61c822 // indirect
	github.com/pelletier/go-toml v1.9.5 // indirect
	github.com/pkg/errors v0.9.1 // indirect
	github.com/pmezard/go-difflib v1.0.1-0.20181226105442-5d4384ee4fb2 // indirect
	github.com/prometheus/client_golang v1.23.0 // indirect
	github.com/prometheus/client_model v0.6.2 // indirect
	github.com/prometheus/common v0.65.0 // indirect
	github.com/prometheus/procfs v0.16.1 // indirect
	github.com/rogpeppe/go-internal v1.15.0 // indirect
	github.com/rs/cors v1.11.1 // indirect
	github.com/rs/xid v1.6.0 // indirect
	github.com/sig-0/insertion-queue v0.0.0-20241004125609-6b3ca841346b // indirect
	github.com/stretchr/testify v1.11.1 // indirect
	github.com/valyala/bytebufferpool v1.0.0 // indirect
	go.etcd.io/bbolt v1.5.0 // indirect
	go.opentelemetry.io/auto/sdk v1.2.1 // indirect
	go.opentelemetry.io/otel v1.44.0 // indirect
	go.opentelemetry.io/otel/exporters/otlp/otlpmetric/otlpmetricgrpc v1.44.0 // indirect
	go.opentelemetry.io/otel/exporters/otlp/otlpmetric/otlpmetrichttp v1.44.0 // indirect
	go.opentelemetry.io/otel/exporters/otlp/otlptrace v1.44.0 // indirect
	go.opentelemetry.io/otel/exporters/otlp/otlptrace/otlptracehttp v1.44.0 // indirect
	go.opentelemetry.io/otel/metric v1.44.0 // indirect
	go.opentelemetry.io/otel/sdk v1.44.0 // indirect
	go.opentelemetry.io/otel/sdk/metric v1.44.0 // indirect
	go.opentelemetry.io/otel/trace v1.44.0 // indirect
	go.opentelemetry.io/proto/otlp v1.10.0 // indirect
	go.uber.org/multierr v1.11.0 // indirect
	golang.org/x/exp v0.0.0-20231006140011-7918f672742d // indirect
	golang.org/x/mod v0.37.0 // indirect
	golang.org/x/net v0.56.0 // indirect
	golang.org/x/sync v0.21.0 // indirect
	golang.org/x/sys v0.46.0 // indirect
	golang.org/x/text v0.38.0 // indirect
	golang.org/x/tools v0.47.0 // indirect
	google.golang.org/genproto/googleapis/api v0.0.0-20260526163538-3dc84a4a5aaa // indirect
	google.golang.org/genproto/googleapis/rpc v0.0.0-20260526163538-3dc84a4a5aaa // indirect
	google.golang.org/grpc v1.81.1 // indirect
	google.golang.org/protobuf v1.36.11 // indirect
	gopkg.in/yaml.v3 v3.0.1 // indirect
)

replace github.com/gnolang/gno => /repo
