package shimsrc

import _ "embed"

// Source is the text of shim.go; the instrumenter writes it, with the package
// clause replaced, into every instrumented package (see shim.go).
//
//go:embed shim.go
var Source string
