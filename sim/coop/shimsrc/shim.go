// Code in this file is the scheduler-aware replacement of sync.Mutex,
// sync.RWMutex, sync.WaitGroup, sync.Cond and sync.Once.
//
// The SAME source text is used twice:
//   - compiled here as package shimsrc (package coop re-exports the types as
//     coop.Mutex, coop.RWMutex, ... and installs its scheduler as the hooks);
//   - copied by /verif/sim/cmd/instrument, with only the package clause
//     changed, into every instrumented /repo package through the build
//     overlay (file zz_verif_syncshim.go). The copy is wired to the scheduler
//     by VerifSetHooks, called from a generated registration file that the
//     overlay adds to the engine package.
//
// Rules the code obeys so that it works in both places:
//   - imports: standard library only;
//   - every blocking operation is  loop { try; else wait }  where wait is
//     "tell the scheduler what I am blocked on and park" when called from a
//     scheduler task, and runtime.Gosched() otherwise (hooks not installed,
//     package init, harness code outside Sched.Run): uninstrumented paths
//     keep plain sync semantics (as a spin lock);
//   - state is protected by a tiny real mutex that is never held across a
//     wait, so mixed task / non-task use stays memory-safe.
package shimsrc

import (
	"runtime"
	"sync"
	"time"
)

// ---- hooks ---------------------------------------------------------------

var (
	verifHookYield func(site string)
	verifHookBlock func(what string, ready func() bool)
	verifHookCur   func() string
)

// VerifSetHooks installs (or, with nils, removes) the scheduler.
//
//	yield(site)        called before every shim operation and at inserted yield points
//	block(what, ready) park the calling task until ready() is true (ready is
//	                   evaluated by the scheduler while no task runs); may
//	                   return spuriously, callers always re-check
//	cur()              name of the running scheduler task, "" if the caller is not one
func VerifSetHooks(yield func(site string), block func(what string, ready func() bool), cur func() string) {
	verifHookYield, verifHookBlock, verifHookCur = yield, block, cur
}

// verifCur returns the running task's name, "" outside the scheduler.
func verifCur() string {
	if verifHookCur == nil {
		return ""
	}
	return verifHookCur()
}

// VerifYieldPoint is what the instrumenter inserts at named anchors.
func VerifYieldPoint(site string) {
	if verifHookYield != nil && verifCur() != "" {
		verifHookYield(site)
	}
}

// VerifSleep replaces time.Sleep in instrumented packages: inside a task it
// is a yield (simulated time is not modelled: a sleeping task is simply
// runnable again at once), elsewhere a real sleep.
func VerifSleep(d time.Duration) {
	if verifHookYield != nil && verifCur() != "" {
		verifHookYield("sleep")
		return
	}
	time.Sleep(d)
}

func verifWait(what string, ready func() bool) {
	if verifHookBlock != nil && verifCur() != "" {
		verifHookBlock(what, ready)
		return
	}
	runtime.Gosched()
}

// ---- Mutex ---------------------------------------------------------------

type VerifMutex struct {
	mu     sync.Mutex // guards the fields; never held across a wait
	locked bool
	owner  string
}

func (m *VerifMutex) tryLock(who string) bool {
	m.mu.Lock()
	ok := !m.locked
	if ok {
		m.locked, m.owner = true, who
	}
	m.mu.Unlock()
	return ok
}

func (m *VerifMutex) free() bool {
	m.mu.Lock()
	f := !m.locked
	m.mu.Unlock()
	return f
}

func (m *VerifMutex) holder() string {
	m.mu.Lock()
	o := m.owner
	m.mu.Unlock()
	if o == "" {
		o = "non-task"
	}
	return o
}

func (m *VerifMutex) Lock() {
	VerifYieldPoint("Mutex.Lock")
	who := verifCur()
	for !m.tryLock(who) {
		verifWait("Mutex.Lock (held by "+m.holder()+")", m.free)
	}
}

func (m *VerifMutex) TryLock() bool {
	VerifYieldPoint("Mutex.TryLock")
	return m.tryLock(verifCur())
}

func (m *VerifMutex) Unlock() {
	VerifYieldPoint("Mutex.Unlock")
	m.mu.Lock()
	if !m.locked {
		m.mu.Unlock()
		panic("sync: unlock of unlocked mutex")
	}
	m.locked, m.owner = false, ""
	m.mu.Unlock()
}

// ---- RWMutex -------------------------------------------------------------

// VerifRWMutex follows sync.RWMutex including writer preference: once a
// writer waits, new readers block until it has acquired and released.
type VerifRWMutex struct {
	mu       sync.Mutex
	writer   bool
	readers  int
	wwaiting int
	owner    string
}

func (m *VerifRWMutex) tryLock(who string) bool {
	m.mu.Lock()
	ok := !m.writer && m.readers == 0
	if ok {
		m.writer, m.owner = true, who
	}
	m.mu.Unlock()
	return ok
}

func (m *VerifRWMutex) tryRLock() bool {
	m.mu.Lock()
	ok := !m.writer && m.wwaiting == 0
	if ok {
		m.readers++
	}
	m.mu.Unlock()
	return ok
}

func (m *VerifRWMutex) canLock() bool {
	m.mu.Lock()
	ok := !m.writer && m.readers == 0
	m.mu.Unlock()
	return ok
}

func (m *VerifRWMutex) canRLock() bool {
	m.mu.Lock()
	ok := !m.writer && m.wwaiting == 0
	m.mu.Unlock()
	return ok
}

func (m *VerifRWMutex) describe() string {
	m.mu.Lock()
	defer m.mu.Unlock()
	if m.writer {
		o := m.owner
		if o == "" {
			o = "non-task"
		}
		return "write-held by " + o
	}
	if m.readers > 0 {
		return "read-held"
	}
	return "writer waiting"
}

func (m *VerifRWMutex) Lock() {
	VerifYieldPoint("RWMutex.Lock")
	who := verifCur()
	if m.tryLock(who) {
		return
	}
	m.mu.Lock()
	m.wwaiting++
	m.mu.Unlock()
	for {
		verifWait("RWMutex.Lock ("+m.describe()+")", m.canLock)
		// acquire and stop counting as a waiter atomically
		m.mu.Lock()
		if !m.writer && m.readers == 0 {
			m.writer, m.owner = true, who
			m.wwaiting--
			m.mu.Unlock()
			return
		}
		m.mu.Unlock()
	}
}

func (m *VerifRWMutex) TryLock() bool {
	VerifYieldPoint("RWMutex.TryLock")
	return m.tryLock(verifCur())
}

func (m *VerifRWMutex) Unlock() {
	VerifYieldPoint("RWMutex.Unlock")
	m.mu.Lock()
	if !m.writer {
		m.mu.Unlock()
		panic("sync: Unlock of unlocked RWMutex")
	}
	m.writer, m.owner = false, ""
	m.mu.Unlock()
}

func (m *VerifRWMutex) RLock() {
	VerifYieldPoint("RWMutex.RLock")
	for !m.tryRLock() {
		verifWait("RWMutex.RLock ("+m.describe()+")", m.canRLock)
	}
}

func (m *VerifRWMutex) TryRLock() bool {
	VerifYieldPoint("RWMutex.TryRLock")
	return m.tryRLock()
}

func (m *VerifRWMutex) RUnlock() {
	VerifYieldPoint("RWMutex.RUnlock")
	m.mu.Lock()
	if m.readers <= 0 {
		m.mu.Unlock()
		panic("sync: RUnlock of unlocked RWMutex")
	}
	m.readers--
	m.mu.Unlock()
}

type verifRLocker VerifRWMutex

func (r *verifRLocker) Lock()   { (*VerifRWMutex)(r).RLock() }
func (r *verifRLocker) Unlock() { (*VerifRWMutex)(r).RUnlock() }

func (m *VerifRWMutex) RLocker() sync.Locker { return (*verifRLocker)(m) }

// ---- WaitGroup -----------------------------------------------------------

type VerifWaitGroup struct {
	mu sync.Mutex
	n  int
}

func (wg *VerifWaitGroup) Add(delta int) {
	VerifYieldPoint("WaitGroup.Add")
	wg.mu.Lock()
	wg.n += delta
	neg := wg.n < 0
	wg.mu.Unlock()
	if neg {
		panic("sync: negative WaitGroup counter")
	}
}

func (wg *VerifWaitGroup) Done() { wg.Add(-1) }

func (wg *VerifWaitGroup) zero() bool {
	wg.mu.Lock()
	z := wg.n == 0
	wg.mu.Unlock()
	return z
}

func (wg *VerifWaitGroup) Wait() {
	VerifYieldPoint("WaitGroup.Wait")
	for !wg.zero() {
		verifWait("WaitGroup.Wait", wg.zero)
	}
}

// Go runs f in a new goroutine that is NOT a scheduler task (none of the
// instrumented packages uses it; kept for method-set parity with go1.25+).
func (wg *VerifWaitGroup) Go(f func()) {
	wg.Add(1)
	go func() {
		defer wg.Done()
		f()
	}()
}

// ---- Cond ----------------------------------------------------------------

// VerifCond is ticket based like the runtime's notifyList: Signal wakes the
// oldest waiter, Broadcast all current waiters.
type VerifCond struct {
	L sync.Locker

	mu     sync.Mutex
	next   uint64 // next ticket to hand out
	notify uint64 // tickets < notify have been woken
}

func VerifNewCond(l sync.Locker) *VerifCond { return &VerifCond{L: l} }

func (c *VerifCond) Wait() {
	VerifYieldPoint("Cond.Wait")
	c.mu.Lock()
	t := c.next
	c.next++
	c.mu.Unlock()
	c.L.Unlock()
	woken := func() bool {
		c.mu.Lock()
		w := t < c.notify
		c.mu.Unlock()
		return w
	}
	for !woken() {
		verifWait("Cond.Wait", woken)
	}
	c.L.Lock()
}

func (c *VerifCond) Signal() {
	VerifYieldPoint("Cond.Signal")
	c.mu.Lock()
	if c.notify < c.next {
		c.notify++
	}
	c.mu.Unlock()
}

func (c *VerifCond) Broadcast() {
	VerifYieldPoint("Cond.Broadcast")
	c.mu.Lock()
	c.notify = c.next
	c.mu.Unlock()
}

// ---- Once ----------------------------------------------------------------

type VerifOnce struct {
	m    VerifMutex
	done bool
}

func (o *VerifOnce) Do(f func()) {
	o.m.Lock()
	defer o.m.Unlock()
	if !o.done {
		defer func() { o.done = true }()
		f()
	}
}
