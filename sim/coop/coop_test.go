package coop

import (
	"strings"
	"testing"

	"verif/sim/kernel"
)

// two tasks increment a shared counter under a shim mutex with lock-level
// yields: never lost updates, same fingerprint for the same seed.
func runCounter(seed uint64) (int, string, Stats) {
	c := kernel.NewExplore(seed)
	s := New(c)
	var mu Mutex
	n := 0
	for i := 0; i < 3; i++ {
		s.Go(string(rune('a'+i)), func() {
			for k := 0; k < 5; k++ {
				mu.Lock()
				v := n
				Yield("inside")
				n = v + 1
				mu.Unlock()
			}
		})
	}
	if err := s.Run(100000); err != nil {
		panic(err)
	}
	return n, c.Fingerprint(), s.Stats
}

func TestMutexAndDeterminism(t *testing.T) {
	fps := map[string]bool{}
	blocked := 0
	for seed := uint64(1); seed <= 60; seed++ {
		n, fp, st := runCounter(seed)
		if n != 15 {
			t.Fatalf("seed %d: lost update, n=%d", seed, n)
		}
		n2, fp2, _ := runCounter(seed)
		if fp != fp2 || n2 != n {
			t.Fatalf("seed %d: not deterministic", seed)
		}
		fps[fp] = true
		blocked += st.BlocksOnLock
	}
	if len(fps) < 30 {
		t.Fatalf("only %d distinct schedules", len(fps))
	}
	if blocked == 0 {
		t.Fatal("no task ever blocked on the mutex")
	}
}

func TestDeadlockReport(t *testing.T) {
	found := false
	for seed := uint64(1); seed <= 200 && !found; seed++ {
		c := kernel.NewExplore(seed)
		s := New(c)
		var a, b Mutex
		s.Go("ab", func() { a.Lock(); b.Lock(); b.Unlock(); a.Unlock() })
		s.Go("ba", func() { b.Lock(); a.Lock(); a.Unlock(); b.Unlock() })
		err := s.Run(10000)
		if d, ok := err.(*Deadlock); ok {
			found = true
			msg := d.Error()
			if !strings.Contains(msg, "held by ab") || !strings.Contains(msg, "held by ba") {
				t.Fatalf("deadlock report does not say who holds what: %s", msg)
			}
			s.Kill()
			for _, tk := range s.Tasks() {
				if !tk.Done() {
					t.Fatal("Kill left a task behind")
				}
			}
		} else if err != nil {
			t.Fatal(err)
		}
	}
	if !found {
		t.Fatal("AB/BA deadlock never scheduled in 200 seeds")
	}
}

func TestWaitGroupCondOnceRW(t *testing.T) {
	for seed := uint64(1); seed <= 100; seed++ {
		c := kernel.NewExplore(seed)
		s := New(c)
		var wg WaitGroup
		var mu Mutex
		cond := NewCond(&mu)
		var once Once
		var rw RWMutex
		ready, inits, readers, maxReaders, sum := false, 0, 0, 0, 0
		wg.Add(3)
		for i := 0; i < 3; i++ {
			s.Go(string(rune('w'+i)), func() {
				defer wg.Done()
				once.Do(func() { Yield("init"); inits++ })
				mu.Lock()
				for !ready {
					cond.Wait()
				}
				mu.Unlock()
				rw.RLock()
				readers++
				if readers > maxReaders {
					maxReaders = readers
				}
				Yield("reading")
				readers--
				rw.RUnlock()
				rw.Lock()
				if readers != 0 {
					panic("writer with readers")
				}
				sum++
				rw.Unlock()
			})
		}
		s.Go("main", func() {
			mu.Lock()
			ready = true
			cond.Broadcast()
			mu.Unlock()
			wg.Wait()
			if sum != 3 {
				panic("wg.Wait returned early")
			}
		})
		if err := s.Run(100000); err != nil {
			t.Fatalf("seed %d: %v", seed, err)
		}
		if inits != 1 {
			t.Fatalf("seed %d: once ran %d times", seed, inits)
		}
	}
}

func TestLostSignalIsADeadlock(t *testing.T) {
	// Signal before Wait with no predicate loop: the classic lost wake-up must
	// show up as a deadlock for some schedule and never hang.
	dead := 0
	for seed := uint64(1); seed <= 100; seed++ {
		c := kernel.NewExplore(seed)
		s := New(c)
		var mu Mutex
		cond := NewCond(&mu)
		s.Go("waiter", func() { mu.Lock(); cond.Wait(); mu.Unlock() })
		s.Go("signaller", func() { mu.Lock(); cond.Signal(); mu.Unlock() })
		if _, ok := s.Run(10000).(*Deadlock); ok {
			dead++
			s.Kill()
		}
	}
	if dead == 0 || dead == 100 {
		t.Fatalf("lost signal seen in %d/100 schedules", dead)
	}
}

func TestFallbackOutsideTasks(t *testing.T) {
	var mu Mutex
	var rw RWMutex
	var wg WaitGroup
	mu.Lock()
	if mu.TryLock() {
		t.Fatal("TryLock on a held mutex")
	}
	mu.Unlock()
	rw.RLock()
	rw.RLock()
	rw.RUnlock()
	rw.RUnlock()
	rw.Lock()
	rw.Unlock()
	wg.Add(1)
	go wg.Done()
	wg.Wait() // spins with Gosched
	Yield("nothing")
	if InTask() {
		t.Fatal("InTask outside a scheduler")
	}
}

func TestTaskPanicIsReported(t *testing.T) {
	c := kernel.NewExplore(7)
	s := New(c)
	var mu Mutex
	s.Go("bad", func() { mu.Unlock() })
	s.Go("other", func() { Yield("x"); Yield("y") })
	err := s.Run(1000)
	for err == nil {
		t.Fatal("panic not reported")
	}
	p, ok := err.(*TaskPanic)
	if !ok || p.Task != "bad" || !strings.Contains(p.Error(), "unlock of unlocked") {
		t.Fatalf("got %v", err)
	}
	s.Kill()
}
