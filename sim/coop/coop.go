// Package coop is the cooperative task scheduler of the simulator (DESIGN §2.4,
// discipline 3).
//
// Every simulated thread ("task") is a real goroutine parked on its own
// channel. Exactly one task runs at a time: the scheduler goroutine releases
// one task, that task runs until its next yield point (an operation of the
// sync shim, an inserted anchor, an explicit coop.Yield, or a blocking wait)
// and hands control back. Which task runs next is decided only by
// kernel.Choices, so a run is an exact function of its seed / tape and is
// independent of GOMAXPROCS and of the Go runtime's scheduler. All hand-offs
// go through channels, so there are no data races between tasks either.
//
// Blocking is predicate based: a task that cannot proceed registers
// (what, ready func() bool) and parks; the scheduler evaluates ready() of the
// blocked tasks while nothing runs and only ever resumes a task whose
// predicate holds. When no unfinished task is runnable, Run returns a
// *Deadlock saying who waits on what.
package coop

import (
	"fmt"
	"runtime/debug"
	"strings"

	"verif/sim/coop/shimsrc"
	"verif/sim/kernel"
)

// The primitives usable directly by harness code. Same method sets as sync.*.
type (
	Mutex     = shimsrc.VerifMutex
	RWMutex   = shimsrc.VerifRWMutex
	WaitGroup = shimsrc.VerifWaitGroup
	Cond      = shimsrc.VerifCond
	Once      = shimsrc.VerifOnce
)

func NewCond(l interface {
	Lock()
	Unlock()
}) *Cond {
	return shimsrc.VerifNewCond(l)
}

// Scheduling policies (drawn per run by New; 0 is the simplest).
const (
	PolicyUniform = iota // uniform over runnable tasks, the task that ran last listed first
	PolicySticky         // keep running the same task; switch with probability 1/StickyDen
	PolicyPCT            // PCT: random priorities, highest runnable runs, D priority change points
	nPolicies
)

type Task struct {
	ID   int
	Name string

	wake    chan struct{}
	started bool
	done    bool
	killed  bool

	blocked bool
	what    string
	ready   func() bool
	site    string // where the task is parked

	// engine-level bookkeeping
	Label string // description of the operation in flight ("" = between operations)
	inOp  bool

	prio int

	Sleeps int // VerifSleep (time.Sleep in instrumented code) calls made by this task

	panicVal   any
	panicStack string
}

func (t *Task) Done() bool    { return t.done }
func (t *Task) Blocked() bool { return t.blocked && !t.done }
func (t *Task) What() string  { return t.what }
func (t *Task) Site() string  { return t.site }
func (t *Task) InOp() bool    { return t.inOp }

type Stats struct {
	Switches       int // the released task differs from the previously released one
	MidOpSwitches  int // ... and at that moment another unfinished task was inside an operation
	Blocks         int // a task parked because it could not proceed
	BlocksOnLock   int // ... on a Mutex/RWMutex
	BlocksOnWait   int // ... on WaitGroup.Wait / Cond.Wait / a channel
	Wakeups        int // a blocked task was resumed because its predicate had become true
	SyncYields     int // yield points taken at shim operations
	AnchorYields   int // yield points taken at instrumenter anchors
	ExplicitYields int
	Sleeps         int
	Deadlocks      int
}

type Sched struct {
	c      *kernel.Choices
	tasks  []*Task
	cur    *Task
	last   *Task
	parked chan struct{}
	clock  int64

	// knobs (set before Run)
	YieldSync    bool // shim operations are yield points (lock-level interleavings)
	YieldAnchors bool // instrumenter anchors are yield points
	LogSched     bool // record every scheduling decision as an event (default true)
	SleepLimit   int  // >0: Run returns *Livelock once a task has called VerifSleep more often than this

	Policy    int
	StickyDen int
	pctPoints []int
	pctNext   int

	Steps int
	Stats Stats
}

var active *Sched

type killSentinel struct{}

// New creates a scheduler and draws its policy for this run.
func New(c *kernel.Choices) *Sched {
	s := &Sched{c: c, parked: make(chan struct{}), YieldSync: true, YieldAnchors: true, LogSched: true}
	s.Policy = c.Intn(nPolicies)
	switch s.Policy {
	case PolicySticky:
		s.StickyDen = []int{2, 4, 8, 16}[c.Intn(4)]
	case PolicyPCT:
		d := c.Intn(4)
		horizon := []int{20, 60, 200, 600}[c.Intn(4)]
		for i := 0; i < d; i++ {
			s.pctPoints = append(s.pctPoints, 1+c.Intn(horizon))
		}
		// sort ascending (tiny)
		for i := range s.pctPoints {
			for j := i + 1; j < len(s.pctPoints); j++ {
				if s.pctPoints[j] < s.pctPoints[i] {
					s.pctPoints[i], s.pctPoints[j] = s.pctPoints[j], s.pctPoints[i]
				}
			}
		}
	}
	c.Event("coop policy=%d sticky=%d pct=%v", s.Policy, s.StickyDen, s.pctPoints)
	return s
}

// Go registers a new task. It may be called before Run, between Runs, or
// from inside a running task. The task first runs when the scheduler picks it.
func (s *Sched) Go(name string, fn func()) *Task {
	if name == "" {
		kernel.Harnessf("coop: task needs a name")
	}
	t := &Task{ID: len(s.tasks), Name: name, wake: make(chan struct{}), site: "start"}
	if s.Policy == PolicyPCT {
		// distinct initial priorities above every change-point priority
		t.prio = 1000 + s.c.Intn(1000)*64 + t.ID
	}
	s.tasks = append(s.tasks, t)
	go func() {
		<-t.wake
		defer func() {
			if r := recover(); r != nil {
				if _, ok := r.(killSentinel); !ok {
					t.panicVal = r
					t.panicStack = string(debug.Stack())
				}
			}
			t.done = true
			t.blocked = false
			s.parked <- struct{}{}
		}()
		if !t.killed {
			fn()
		}
	}()
	return t
}

func (s *Sched) Tasks() []*Task { return s.tasks }

// Current returns the running task (nil when called from outside a task).
func (s *Sched) Current() *Task { return s.cur }

// Stamp returns a fresh logical timestamp: strictly increasing over the whole
// run, across tasks (it also advances on every scheduling step).
func (s *Sched) Stamp() int64 {
	s.clock++
	return s.clock
}

// OpBegin / OpEnd bracket one API operation of the calling task (used for the
// "switched while another task was mid-operation" measure and for reports).
func (s *Sched) OpBegin(label string) {
	if t := s.cur; t != nil {
		t.Label, t.inOp = label, true
	}
}

func (s *Sched) OpEnd() {
	if t := s.cur; t != nil {
		t.Label, t.inOp = "", false
	}
}

// TaskPanic is returned by Run when a task panicked (other than by a harness error).
type TaskPanic struct {
	Task  string
	Label string
	Value any
	Stack string
}

func (p *TaskPanic) Error() string {
	return fmt.Sprintf("task %s panicked during %q: %v", p.Task, p.Label, p.Value)
}

type BlockedTask struct {
	Name  string
	Label string // engine-level operation in flight
	What  string // primitive it is blocked on
	T     *Task
}

// Deadlock: every unfinished task is blocked and no predicate holds.
type Deadlock struct {
	Blocked []BlockedTask
	Step    int
}

func (d *Deadlock) Error() string {
	var b strings.Builder
	fmt.Fprintf(&b, "deadlock at step %d:", d.Step)
	for _, t := range d.Blocked {
		fmt.Fprintf(&b, " [%s in %q blocked on %s]", t.Name, t.Label, t.What)
	}
	return b.String()
}

// Livelock is returned when a task keeps sleeping (polling for a condition
// that nobody establishes) beyond Sched.SleepLimit.
type Livelock struct {
	Task  string
	Label string
	T     *Task
}

func (e *Livelock) Error() string {
	return fmt.Sprintf("task %s polls with time.Sleep in %q without progress", e.Task, e.Label)
}

// StepLimit is returned when maxSteps scheduling steps did not finish the tasks.
type StepLimit struct{ Steps int }

func (e *StepLimit) Error() string { return fmt.Sprintf("step limit %d reached", e.Steps) }

// Run schedules tasks until all have finished (nil), none can run (*Deadlock),
// a task panicked (*TaskPanic) or maxSteps further steps were taken
// (*StepLimit). It may be called again after adding tasks.
func (s *Sched) Run(maxSteps int) error {
	if active != nil && active != s {
		kernel.Harnessf("coop: two schedulers running")
	}
	if s.cur != nil {
		kernel.Harnessf("coop: Run called from inside a task")
	}
	active = s
	defer func() { active = nil }()
	limit := s.Steps + maxSteps
	var runnable []*Task
	for {
		runnable = runnable[:0]
		unfinished := 0
		for _, t := range s.tasks {
			if t.done {
				continue
			}
			unfinished++
			if !t.blocked || t.ready() {
				runnable = append(runnable, t)
			}
		}
		if unfinished == 0 {
			return nil
		}
		if len(runnable) == 0 {
			d := &Deadlock{Step: s.Steps}
			for _, t := range s.tasks {
				if !t.done {
					d.Blocked = append(d.Blocked, BlockedTask{Name: t.Name, Label: t.Label, What: t.what, T: t})
				}
			}
			s.Stats.Deadlocks++
			s.c.Event("deadlock %s", d.Error())
			return d
		}
		if s.Steps >= limit {
			return &StepLimit{Steps: s.Steps}
		}
		t := s.pick(runnable)
		s.Steps++
		s.clock++
		if t.blocked {
			t.blocked = false
			s.Stats.Wakeups++
		}
		if s.last != nil && s.last != t {
			s.Stats.Switches++
			for _, o := range s.tasks {
				if o != t && !o.done && o.inOp {
					s.Stats.MidOpSwitches++
					break
				}
			}
		}
		if s.LogSched {
			s.c.Event("run %s@%s", t.Name, t.site)
		}
		s.resume(t)
		if t.panicVal != nil {
			if he, ok := t.panicVal.(kernel.HarnessError); ok {
				panic(he)
			}
			if _, ok := t.panicVal.(kernel.ErrTapeOverrun); ok {
				panic(t.panicVal)
			}
			p := &TaskPanic{Task: t.Name, Label: t.Label, Value: t.panicVal, Stack: t.panicStack}
			t.panicVal = nil
			return p
		}
		if s.SleepLimit > 0 && t.Sleeps > s.SleepLimit && !t.done {
			return &Livelock{Task: t.Name, Label: t.Label, T: t}
		}
	}
}

func (s *Sched) resume(t *Task) {
	s.cur, s.last = t, t
	t.started = true
	t.wake <- struct{}{}
	<-s.parked
	s.cur = nil
}

func (s *Sched) pick(r []*Task) *Task {
	if s.Policy == PolicyPCT {
		if s.pctNext < len(s.pctPoints) && s.Steps >= s.pctPoints[s.pctNext] {
			if s.last != nil {
				s.last.prio = len(s.pctPoints) - s.pctNext // below every initial priority
			}
			s.pctNext++
		}
		best := r[0]
		for _, t := range r[1:] {
			if t.prio > best.prio {
				best = t
			}
		}
		return best
	}
	if len(r) == 1 {
		return r[0]
	}
	// order: the task that ran last first (choice 0 = no context switch), then by id
	li := -1
	for i, t := range r {
		if t == s.last {
			li = i
		}
	}
	if s.Policy == PolicySticky && li >= 0 {
		if !s.c.Chance(1, s.StickyDen) {
			return r[li]
		}
		k := s.c.Intn(len(r) - 1)
		if k >= li {
			k++
		}
		return r[k]
	}
	k := s.c.Intn(len(r))
	if li < 0 {
		return r[k]
	}
	if k == 0 {
		return r[li]
	}
	if k <= li {
		return r[k-1]
	}
	return r[k]
}

// park hands control back to the scheduler and waits to be released again.
func (s *Sched) park(t *Task, site string) {
	if t.killed {
		panic(killSentinel{})
	}
	t.site = site
	s.parked <- struct{}{}
	<-t.wake
	if t.killed {
		panic(killSentinel{})
	}
}

// Kill unwinds every unfinished task (their goroutines exit). Call it at the
// end of a run that did not finish all tasks (deadlock, violation).
func (s *Sched) Kill() {
	if s.cur != nil {
		kernel.Harnessf("coop: Kill called from inside a task")
	}
	active = s
	defer func() { active = nil }()
	for _, t := range s.tasks {
		for i := 0; i < 8 && !t.done; i++ { // a task that recovers the sentinel is released a few more times, then abandoned
			t.killed = true
			s.resume(t)
		}
		t.panicVal = nil
	}
}

// ---- package-level entry points used from inside tasks ---------------------

// Yield is an explicit yield point. Outside a task it does nothing.
func Yield(site string) {
	s := active
	if s == nil || s.cur == nil {
		return
	}
	s.Stats.ExplicitYields++
	s.park(s.cur, site)
}

// Block parks the calling task until ready() holds (evaluated by the scheduler
// while no task runs). Outside a task it returns at once: callers loop.
func Block(what string, ready func() bool) {
	hookBlock(what, ready)
}

// WaitClosed waits, scheduler-aware, until ch is closed (for code under test
// that exposes "closed when ready" channels). ch must only ever be closed,
// never sent on: the predicate polls it.
func WaitClosed(what string, ch <-chan struct{}) {
	closed := func() bool {
		select {
		case <-ch:
			return true
		default:
			return false
		}
	}
	s := active
	if s == nil || s.cur == nil {
		<-ch
		return
	}
	if s.YieldSync {
		s.Stats.SyncYields++
		s.park(s.cur, "chan:"+what)
	}
	for !closed() {
		hookBlock("chan "+what, closed)
	}
}

// InTask reports whether the caller runs as a scheduler task.
func InTask() bool { return active != nil && active.cur != nil }

func hookYield(site string) {
	s := active
	if s == nil || s.cur == nil {
		return
	}
	switch {
	case site == "sleep":
		s.cur.Sleeps++
		s.Stats.Sleeps++
	case strings.HasPrefix(site, "at:"):
		if !s.YieldAnchors {
			return
		}
		s.Stats.AnchorYields++
	default:
		if !s.YieldSync {
			return
		}
		s.Stats.SyncYields++
	}
	s.park(s.cur, site)
}

func hookBlock(what string, ready func() bool) {
	s := active
	if s == nil || s.cur == nil {
		return
	}
	t := s.cur
	t.blocked, t.what, t.ready = true, what, ready
	s.Stats.Blocks++
	switch {
	case strings.HasPrefix(what, "Mutex") || strings.HasPrefix(what, "RWMutex"):
		s.Stats.BlocksOnLock++
	default:
		s.Stats.BlocksOnWait++
	}
	if s.LogSched {
		s.c.Event("block %s on %s", t.Name, what)
	}
	s.park(t, "blocked:"+what)
	t.blocked = false
}

func hookCur() string {
	s := active
	if s == nil || s.cur == nil {
		return ""
	}
	return s.cur.Name
}

// ---- wiring of instrumented packages ----------------------------------------

var instrumented []string

// RegisterInstrumented is called (from a file the build overlay adds to the
// engine package) once per instrumented /repo package with that package's
// generated VerifSetHooks.
func RegisterInstrumented(pkg string, set func(yield func(string), block func(string, func() bool), cur func() string)) {
	set(hookYield, hookBlock, hookCur)
	instrumented = append(instrumented, pkg)
}

// Instrumented lists the /repo packages compiled with the sync shim in this
// binary (empty when the binary was built without the overlay).
func Instrumented() []string { return append([]string(nil), instrumented...) }

// RequireInstrumented is a harness error unless every listed package was
// compiled with the shim.
func RequireInstrumented(pkgs ...string) {
	for _, p := range pkgs {
		ok := false
		for _, q := range instrumented {
			if p == q {
				ok = true
			}
		}
		if !ok {
			kernel.Harnessf("package %s is not compiled with the sync shim (binary built without the instrumenter overlay?); instrumented: %v", p, instrumented)
		}
	}
}

func init() {
	shimsrc.VerifSetHooks(hookYield, hookBlock, hookCur)
}
