// Package simdb is the simulated disk behind every dbm.DB-backed component.
//
// A Disk is what survives a process crash. A *DB is a process's handle on a
// Disk (it implements tm2/pkg/db.DB); after Disk.Crash the old handles are
// dead. Every mutation is one *physical op* with a global sequence number
// (shared by all Disks attached to the same Machine), so that "the process dies
// when it is about to issue physical op k" is well defined across devices.
//
// Durability model (an assumption, stated in DESIGN.md §2.5): a synced op makes
// itself and every earlier op on that disk durable; unsynced ops survive a
// process kill, and on power loss a prefix of the unsynced tail survives (LSM
// write-ahead logs lose a suffix, never a hole); a batch is atomic.
package simdb

import (
	"bytes"
	"errors"
	"fmt"
	"sort"
	"sync"

	dbm "github.com/gnolang/gno/tm2/pkg/db"
)

// CrashSentinel is panicked by the op at which the machine is scheduled to die.
type CrashSentinel struct{ Op uint64 }

func (c CrashSentinel) Error() string { return fmt.Sprintf("simdb: simulated crash at physical op %d", c.Op) }

// ErrInjected is returned by ops selected for error injection.
var ErrInjected = errors.New("simdb: injected I/O error")

// Machine owns the op counter and fault plan shared by a node's devices.
type Machine struct {
	mu       sync.Mutex
	Ops      uint64 // physical ops issued so far (mutations only)
	CrashAt  uint64 // 0 = never; the op with this 1-based index panics instead of executing
	FailAt   map[uint64]bool
	Dead     bool           // set once the crash sentinel fired; all later ops are dropped
	Yield    func(op string) // cooperative scheduler hook, called (unlocked) before every op incl. reads
	// YieldAfterSync: also yield AFTER a synced write was applied and before the call returns: the fsync window of
	// a real engine (the batch is already visible to readers, the writer still waits for durability)
	YieldAfterSync bool
	Counters map[string]int
	OnOp     func(disk string, kind string, n int) // observer for traces (must not draw)
}

func NewMachine() *Machine {
	return &Machine{Counters: map[string]int{}, FailAt: map[uint64]bool{}}
}

// Reboot clears the dead flag and crash plan (op counter keeps running).
func (m *Machine) Reboot() {
	m.mu.Lock()
	m.Dead = false
	m.CrashAt = 0
	m.mu.Unlock()
}

type kv struct {
	k string
	v []byte // nil = delete
}

type undo struct {
	k    string
	prev []byte
	had  bool
}

type physOp struct {
	seq  uint64
	undo []undo
}

// Disk is the durable medium.
type Disk struct {
	Name string
	M    *Machine

	mu       sync.Mutex
	cur      map[string][]byte
	sorted   []string // sorted superset of live keys minus `fresh`
	fresh    []string // keys added since last merge
	stale    int
	unsynced []physOp
	epoch    int
	NoSnap   bool // NewSnapshot returns an error (drives the ImmutableDB fallback path)
}

func NewDisk(name string, m *Machine) *Disk {
	if m == nil {
		m = NewMachine()
	}
	return &Disk{Name: name, M: m, cur: map[string][]byte{}}
}

// Clone returns an independent copy of the disk (current contents, including
// the not-yet-durable tail) attached to machine m.
func (d *Disk) Clone(m *Machine) *Disk {
	d.mu.Lock()
	defer d.mu.Unlock()
	if m == nil {
		m = NewMachine()
	}
	n := &Disk{Name: d.Name, M: m, cur: make(map[string][]byte, len(d.cur)), NoSnap: d.NoSnap}
	for k, v := range d.cur {
		n.cur[k] = v // values are never mutated in place
	}
	d.mergeLocked()
	n.sorted = append([]string(nil), d.sorted...)
	n.stale = d.stale
	for _, op := range d.unsynced {
		n.unsynced = append(n.unsynced, physOp{seq: op.seq, undo: append([]undo(nil), op.undo...)})
	}
	return n
}

// Open returns a live handle.
func (d *Disk) Open() *DB {
	d.mu.Lock()
	defer d.mu.Unlock()
	return &DB{d: d, epoch: d.epoch}
}

// Unsynced returns the number of physical ops that would be at risk on power loss.
func (d *Disk) Unsynced() int {
	d.mu.Lock()
	defer d.mu.Unlock()
	return len(d.unsynced)
}

// Crash kills all handles. keepUnsynced = how many of the unsynced physical ops
// survive (len(unsynced) = process kill; fewer = power loss dropping a suffix).
func (d *Disk) Crash(keepUnsynced int) (dropped int) {
	d.mu.Lock()
	defer d.mu.Unlock()
	if keepUnsynced < 0 {
		keepUnsynced = 0
	}
	for len(d.unsynced) > keepUnsynced {
		op := d.unsynced[len(d.unsynced)-1]
		d.unsynced = d.unsynced[:len(d.unsynced)-1]
		for i := len(op.undo) - 1; i >= 0; i-- {
			u := op.undo[i]
			if u.had {
				d.setLocked(u.k, u.prev)
			} else {
				d.delLocked(u.k)
			}
		}
		dropped++
	}
	d.epoch++
	return
}

// Len returns the number of live keys.
func (d *Disk) Len() int {
	d.mu.Lock()
	defer d.mu.Unlock()
	return len(d.cur)
}

// Dump returns a sorted copy of all live pairs (harness use).
func (d *Disk) Dump() (keys []string, vals [][]byte) {
	d.mu.Lock()
	defer d.mu.Unlock()
	keys = d.rangeLocked(nil, nil)
	vals = make([][]byte, len(keys))
	for i, k := range keys {
		vals[i] = d.cur[k]
	}
	return
}

func (d *Disk) setLocked(k string, v []byte) {
	if _, ok := d.cur[k]; !ok {
		d.fresh = append(d.fresh, k)
	}
	d.cur[k] = v
}

func (d *Disk) delLocked(k string) {
	if _, ok := d.cur[k]; ok {
		delete(d.cur, k)
		d.stale++
	}
}

func (d *Disk) mergeLocked() {
	if len(d.fresh) == 0 && d.stale <= len(d.sorted)/2+16 {
		return
	}
	sort.Strings(d.fresh)
	out := make([]string, 0, len(d.cur))
	i, j := 0, 0
	var last string
	first := true
	push := func(k string) {
		if _, ok := d.cur[k]; !ok {
			return
		}
		if !first && k == last {
			return
		}
		out = append(out, k)
		last, first = k, false
	}
	for i < len(d.sorted) || j < len(d.fresh) {
		if j >= len(d.fresh) || (i < len(d.sorted) && d.sorted[i] <= d.fresh[j]) {
			push(d.sorted[i])
			i++
		} else {
			push(d.fresh[j])
			j++
		}
	}
	d.sorted, d.fresh, d.stale = out, nil, 0
}

// rangeLocked returns the live keys in [start,end) ascending.
func (d *Disk) rangeLocked(start, end []byte) []string {
	d.mergeLocked()
	lo := 0
	if start != nil {
		s := string(start)
		lo = sort.SearchStrings(d.sorted, s)
	}
	hi := len(d.sorted)
	if end != nil {
		e := string(end)
		hi = sort.SearchStrings(d.sorted, e)
	}
	if hi < lo {
		hi = lo
	}
	out := make([]string, 0, hi-lo)
	for _, k := range d.sorted[lo:hi] {
		if _, ok := d.cur[k]; ok {
			out = append(out, k)
		}
	}
	return out
}

// ---------------------------------------------------------------------------

// DB implements dbm.DB on top of a Disk.
type DB struct {
	d     *Disk
	epoch int
}

var _ dbm.DB = (*DB)(nil)

func nn(b []byte) []byte {
	if b == nil {
		return []byte{}
	}
	return b
}

func cp(b []byte) []byte {
	out := make([]byte, len(b))
	copy(out, b)
	return out
}

func (db *DB) Disk() *Disk { return db.d }

func (db *DB) yield(op string) {
	m := db.d.M
	if m.Yield != nil {
		m.Yield(db.d.Name + "." + op)
	}
}

func (db *DB) dead() bool {
	db.d.mu.Lock()
	e := db.d.epoch
	db.d.mu.Unlock()
	return e != db.epoch
}

// mutate runs one physical op under the fault plan. ops is applied atomically.
func (db *DB) mutate(kind string, sync bool, ops []kv) error {
	db.yield(kind)
	m := db.d.M
	m.mu.Lock()
	if m.Dead || db.dead() {
		m.mu.Unlock()
		return nil // frozen: the process is already gone; deferred writers are ignored
	}
	m.Ops++
	seq := m.Ops
	m.Counters[kind]++
	if m.CrashAt != 0 && seq >= m.CrashAt {
		m.Dead = true
		m.mu.Unlock()
		panic(CrashSentinel{Op: seq})
	}
	if m.FailAt[seq] {
		m.Counters["injected_error"]++
		m.mu.Unlock()
		return ErrInjected
	}
	obs := m.OnOp
	m.mu.Unlock()

	d := db.d
	d.mu.Lock()
	op := physOp{seq: seq}
	for _, o := range ops {
		prev, had := d.cur[o.k]
		op.undo = append(op.undo, undo{k: o.k, prev: prev, had: had})
		if o.v == nil {
			d.delLocked(o.k)
		} else {
			d.setLocked(o.k, o.v)
		}
	}
	if sync {
		d.unsynced = d.unsynced[:0]
	} else {
		d.unsynced = append(d.unsynced, op)
	}
	d.mu.Unlock()
	if obs != nil {
		obs(d.Name, kind, len(ops))
	}
	if sync && m.YieldAfterSync {
		db.yield(kind + ".fsync-window")
	}
	return nil
}

func (db *DB) Get(key []byte) ([]byte, error) {
	db.yield("Get")
	d := db.d
	d.mu.Lock()
	defer d.mu.Unlock()
	d.M.mu.Lock()
	d.M.Counters["Get"]++
	d.M.mu.Unlock()
	v, ok := d.cur[string(key)]
	if !ok {
		return nil, nil
	}
	return cp(v), nil
}

func (db *DB) Has(key []byte) (bool, error) {
	db.yield("Has")
	d := db.d
	d.mu.Lock()
	defer d.mu.Unlock()
	_, ok := d.cur[string(key)]
	return ok, nil
}

func (db *DB) Set(key, value []byte) error {
	return db.mutate("Set", false, []kv{{string(key), cp(nn(value))}})
}

func (db *DB) SetSync(key, value []byte) error {
	return db.mutate("SetSync", true, []kv{{string(key), cp(nn(value))}})
}

func (db *DB) Delete(key []byte) error {
	return db.mutate("Delete", false, []kv{{string(key), nil}})
}

func (db *DB) DeleteSync(key []byte) error {
	return db.mutate("DeleteSync", true, []kv{{string(key), nil}})
}

func (db *DB) Close() error { return nil }

func (db *DB) Print() error { return nil }

func (db *DB) Stats() map[string]string {
	return map[string]string{"database.type": "simdb", "database.size": fmt.Sprint(db.d.Len())}
}

func (db *DB) NewBatch() dbm.Batch           { return &batch{db: db} }
func (db *DB) NewBatchWithSize(int) dbm.Batch { return &batch{db: db} }

func (db *DB) Iterator(start, end []byte) (dbm.Iterator, error) {
	db.yield("Iterator")
	return db.d.iter(start, end, false), nil
}

func (db *DB) ReverseIterator(start, end []byte) (dbm.Iterator, error) {
	db.yield("ReverseIterator")
	return db.d.iter(start, end, true), nil
}

func (d *Disk) iter(start, end []byte, reverse bool) *iterator {
	d.mu.Lock()
	defer d.mu.Unlock()
	d.M.mu.Lock()
	d.M.Counters["Iterator"]++
	d.M.mu.Unlock()
	keys := d.rangeLocked(start, end)
	it := &iterator{start: start, end: end}
	it.keys = make([]string, len(keys))
	it.vals = make([][]byte, len(keys))
	for i, k := range keys {
		j := i
		if reverse {
			j = len(keys) - 1 - i
		}
		it.keys[j] = k
		it.vals[j] = d.cur[k]
	}
	return it
}

func (db *DB) NewSnapshot() (dbm.Snapshot, error) {
	db.yield("NewSnapshot")
	d := db.d
	d.mu.Lock()
	defer d.mu.Unlock()
	if d.NoSnap {
		return nil, errors.New("simdb: snapshots not supported (configured)")
	}
	d.M.mu.Lock()
	d.M.Counters["NewSnapshot"]++
	d.M.mu.Unlock()
	s := &snapshot{m: make(map[string][]byte, len(d.cur))}
	for k, v := range d.cur {
		s.m[k] = v
	}
	d.mergeLocked()
	s.keys = make([]string, 0, len(d.cur))
	for _, k := range d.sorted {
		if _, ok := d.cur[k]; ok {
			s.keys = append(s.keys, k)
		}
	}
	s.yield = db.yield
	return s, nil
}

// ---------------------------------------------------------------------------

type batch struct {
	db     *DB
	ops    []kv
	size   int
	closed bool
	done   bool
}

var errBatchClosed = errors.New("simdb: batch is closed")

func (b *batch) Set(key, value []byte) error {
	if b.closed || b.done {
		return errBatchClosed
	}
	b.ops = append(b.ops, kv{string(key), cp(nn(value))})
	b.size += len(key) + len(value) + 2
	return nil
}

func (b *batch) Delete(key []byte) error {
	if b.closed || b.done {
		return errBatchClosed
	}
	b.ops = append(b.ops, kv{string(key), nil})
	b.size += len(key) + 1
	return nil
}

func (b *batch) write(sync bool) error {
	if b.closed || b.done {
		return errBatchClosed
	}
	kind := "Batch.Write"
	if sync {
		kind = "Batch.WriteSync"
	}
	err := b.db.mutate(kind, sync, b.ops)
	if err != nil {
		return err
	}
	b.done = true
	return nil
}

func (b *batch) Write() error     { return b.write(false) }
func (b *batch) WriteSync() error { return b.write(true) }
func (b *batch) Close() error {
	b.closed = true
	b.ops = nil
	return nil
}

func (b *batch) GetByteSize() (int, error) {
	if b.closed || b.done { // contract: after Write only Close may be called, other methods error
		return 0, errBatchClosed
	}
	return b.size, nil
}

// ---------------------------------------------------------------------------

type iterator struct {
	start, end []byte
	keys       []string
	vals       [][]byte
	cur        int
}

func (it *iterator) Domain() ([]byte, []byte) { return it.start, it.end }
func (it *iterator) Valid() bool               { return it.cur < len(it.keys) }
func (it *iterator) Next() {
	if !it.Valid() {
		panic("simdb: iterator is invalid")
	}
	it.cur++
}

func (it *iterator) Key() []byte {
	if !it.Valid() {
		panic("simdb: iterator is invalid")
	}
	return []byte(it.keys[it.cur])
}

func (it *iterator) Value() []byte {
	if !it.Valid() {
		panic("simdb: iterator is invalid")
	}
	return cp(it.vals[it.cur])
}
func (it *iterator) Error() error { return nil }
func (it *iterator) Close() error { it.keys, it.vals = nil, nil; return nil }

// ---------------------------------------------------------------------------

type snapshot struct {
	m     map[string][]byte
	keys  []string
	yield func(string)
}

func (s *snapshot) Get(key []byte) ([]byte, error) {
	s.yield("Snap.Get")
	v, ok := s.m[string(key)]
	if !ok {
		return nil, nil
	}
	return cp(v), nil
}

func (s *snapshot) Has(key []byte) (bool, error) {
	s.yield("Snap.Has")
	_, ok := s.m[string(key)]
	return ok, nil
}

func (s *snapshot) rng(start, end []byte, reverse bool) *iterator {
	lo := 0
	if start != nil {
		lo = sort.SearchStrings(s.keys, string(start))
	}
	hi := len(s.keys)
	if end != nil {
		hi = sort.SearchStrings(s.keys, string(end))
	}
	if hi < lo {
		hi = lo
	}
	n := hi - lo
	it := &iterator{start: start, end: end, keys: make([]string, n), vals: make([][]byte, n)}
	for i, k := range s.keys[lo:hi] {
		j := i
		if reverse {
			j = n - 1 - i
		}
		it.keys[j] = k
		it.vals[j] = s.m[k]
	}
	return it
}

func (s *snapshot) Iterator(start, end []byte) (dbm.Iterator, error) {
	s.yield("Snap.Iterator")
	return s.rng(start, end, false), nil
}

func (s *snapshot) ReverseIterator(start, end []byte) (dbm.Iterator, error) {
	s.yield("Snap.ReverseIterator")
	return s.rng(start, end, true), nil
}
func (s *snapshot) Close() error { return nil }

// Equal reports whether two disks hold the same live pairs; if not, the first
// differing key.
func Equal(a, b *Disk) (bool, string) {
	ak, av := a.Dump()
	bk, bv := b.Dump()
	i, j := 0, 0
	for i < len(ak) || j < len(bk) {
		switch {
		case j >= len(bk) || (i < len(ak) && ak[i] < bk[j]):
			return false, fmt.Sprintf("key %q only in %s", ak[i], a.Name)
		case i >= len(ak) || bk[j] < ak[i]:
			return false, fmt.Sprintf("key %q only in %s(b)", bk[j], b.Name)
		default:
			if !bytes.Equal(av[i], bv[j]) {
				return false, fmt.Sprintf("key %q differs", ak[i])
			}
			i++
			j++
		}
	}
	return true, ""
}
