#!/bin/sh
# Run once after a fresh restore, offline. Warms the Go build cache for the harness module
# (gno.land + tm2 + cgo db backends under go1.26.8) so that quick checks only pay incremental builds.
set -e
cd "$(dirname "$0")/sim"
export GOFLAGS=-mod=mod GOPROXY=off GOSUMDB=off GOTOOLCHAIN=local
cp /repo/go.sum go.sum
for e in engines/*/; do
  go1.26.8 test -c -vet=off -tags verif -o /dev/null ./$e 2>/dev/null || { echo "setup: build of $e failed" >&2; go1.26.8 test -c -vet=off -tags verif -o /dev/null ./$e 2>&1 | grep -v warning | tail -20; exit 1; }
done
echo setup ok
